package main

// Domain "writer" (properties C04, C13): Write / Rotate sequences on a WarcFileWriter with one
// worker; the files are read back sequentially and at every reported offset.

import (
	"bufio"
	"fmt"
	"math/rand"
	"os"
	"path/filepath"
	"sort"
	"strconv"
	"strings"
	"time"

	gowarc "github.com/nlnwa/gowarc/v2"
)

func init() { domains["writer"] = &domain{gen: genWriter, run: runWriter} }

var fixedNow = time.Date(2021, 5, 6, 7, 8, 9, 0, time.UTC)

type wspec struct {
	max      int64
	compress int
	ratio    string
	info     int
	flush    int
	bodies   [][]byte
	ops      [][]int // a batch of record indexes, or nil for Rotate
}

func recID(i int) string { return fmt.Sprintf("urn:uuid:%08d-0000-0000-0000-000000000000", i+1) }
func infoID(k int) string { return fmt.Sprintf("urn:uuid:99999999-0000-0000-0000-%012d", k) }

func genWriter(r *rand.Rand, n int, tier string, out *bufio.Writer) {
	for i := 0; i < n; i++ {
		nrec := 2 + r.Intn(6)
		sizes := make([]int, nrec)
		base := pick(r, []int{0, 10, 100, 400})
		for j := range sizes {
			sizes[j] = base + r.Intn(40)
			if r.Intn(8) == 0 {
				sizes[j] = 0 // a record with an empty block, also in the middle of a file
			}
		}
		// a record of this size serializes to about 330 + size bytes
		unit := int64(330 + base)
		max := pick(r, []int64{0, unit / 2, unit, unit + 20, 2 * unit, 2*unit + 50, 3 * unit, 1 << 30})
		ratio := pick(r, []string{"0.5", "0.25", "1", "0.75", "2"})
		var sb strings.Builder
		dup := 0
		if r.Intn(10) == 0 {
			dup = 1 // a name generator that repeats its name, files written under their final name
		}
		fmt.Fprintf(&sb, "writer %d %d %s %d %d %d %d", max, r.Intn(2), ratio, r.Intn(2), r.Intn(2), dup, nrec)
		for _, s := range sizes {
			fmt.Fprintf(&sb, " %s", hx(genData(r, s)))
		}
		nops := 1 + r.Intn(6)
		fmt.Fprintf(&sb, " %d", nops)
		next := 0
		for j := 0; j < nops; j++ {
			if r.Intn(5) == 0 {
				sb.WriteString(" r")
				continue
			}
			k := pick(r, []int{1, 1, 1, 2, 3})
			fmt.Fprintf(&sb, " w %d", k)
			for x := 0; x < k; x++ {
				idx := next % nrec
				if r.Intn(8) == 0 {
					idx = r.Intn(nrec) // the same record object written again
				} else {
					next++
				}
				fmt.Fprintf(&sb, " %d", idx)
			}
		}
		fmt.Fprintln(out, sb.String())
	}
}

type cbEntry struct {
	name string
	size int64
	info string
}

func runWriter(toks []string) (string, string) {
	t := &tokens{t: toks}
	max := t.nextInt64()
	compress, ratioS, info, flush := t.nextInt() == 1, t.next(), t.nextInt() == 1, t.nextInt() == 1
	ratio, _ := strconv.ParseFloat(ratioS, 64)
	dup := t.nextInt() == 1
	nrec := t.nextInt()
	dir, err := os.MkdirTemp("", "verif-writer-")
	if err != nil {
		panic(err)
	}
	defer os.RemoveAll(dir)
	tmp := filepath.Join(dir, "tmp")
	os.Mkdir(tmp, 0o755)
	out := filepath.Join(dir, "out")
	os.Mkdir(out, 0o755)
	var recs []gowarc.WarcRecord
	var bodies [][]byte
	for i := 0; i < nrec; i++ {
		body := t.nextHex()
		bodies = append(bodies, body)
		id := recID(i)
		rb := gowarc.NewRecordBuilder(gowarc.Resource, gowarc.WithBufferTmpDir(tmp), gowarc.WithRecordIdFunc(func() (string, error) { return id, nil }))
		rb.AddWarcHeader("WARC-Date", "2021-05-06T07:08:09Z")
		rb.AddWarcHeader("Content-Type", "application/octet-stream")
		rb.AddWarcHeader("WARC-Target-URI", "http://example.com/"+strconv.Itoa(i))
		rb.Write(body)
		rec, _, err := rb.Build()
		if err != nil {
			return "BUILDERR", "-"
		}
		recs = append(recs, rec)
	}
	defer func() {
		for _, r := range recs {
			r.Close()
		}
	}()
	gowarc.VerifSetNow(fixedNow)
	infoCount := 0
	var callbacks []cbEntry
	// the compression suffix option (left at its default value) before, after or without the
	// compression switch: the order in which options are given must not matter
	var opts []gowarc.WarcFileWriterOption
	switch len(toks) % 3 {
	case 0:
		opts = append(opts, gowarc.WithCompressedFileSuffix(".gz"), gowarc.WithCompression(compress))
	case 1:
		opts = append(opts, gowarc.WithCompression(compress), gowarc.WithCompressedFileSuffix(".gz"))
	default:
		opts = append(opts, gowarc.WithCompression(!compress), gowarc.WithCompression(compress))
	}
	opts = append(opts,
		gowarc.WithMaxFileSize(max), gowarc.WithExpectedCompressionRatio(ratio),
		gowarc.WithFileNameGenerator(&gowarc.PatternNameGenerator{Directory: out, Prefix: "v", Pattern: "%{prefix}s-%04{serial}d.%{ext}s", Extension: "warc"}),
		gowarc.WithMaxConcurrentWriters(1), gowarc.WithFlush(flush),
		gowarc.WithAfterFileCreationHook(func(name string, size int64, infoId string) error {
			callbacks = append(callbacks, cbEntry{name, size, infoId})
			return nil
		}),
		gowarc.WithRecordOptions(gowarc.WithBufferTmpDir(tmp), gowarc.WithRecordIdFunc(func() (string, error) {
			infoCount++
			return infoID(infoCount), nil
		})),
	)
	// the in-progress suffix is configurable: derived from the case so that the case format (and
	// the model, which only sees final names) stays as it is
	openSuffix := []string{".open", ".open", ".lock", ".incomplete", ".w"}[nrec%5]
	opts = append(opts, gowarc.WithOpenFileSuffix(openSuffix))
	if dup {
		openSuffix = ""
		opts = append(opts, gowarc.WithFileNameGenerator(&gowarc.PatternNameGenerator{Directory: out, Prefix: "v", Pattern: "%{prefix}s-0001.%{ext}s", Extension: "warc"}),
			gowarc.WithOpenFileSuffix(""))
	}
	if info {
		opts = append(opts, gowarc.WithWarcInfoFunc(func(rb gowarc.WarcRecordBuilder) error {
			_, err := rb.WriteString("software: verif\r\n")
			return err
		}))
	}
	w := gowarc.NewWarcFileWriter(opts...)
	type written struct {
		idx  int
		resp gowarc.WriteResponse
	}
	var all []written
	var held, heldCopy [][]gowarc.WriteResponse // what Write returned, and how it looked then
	var obs []string
	nops := t.nextInt()
	for i := 0; i < nops; i++ {
		if t.next() == "r" {
			if err := w.Rotate(); err != nil {
				obs = append(obs, "rotate:err")
			} else {
				obs = append(obs, "rotate")
			}
			continue
		}
		k := t.nextInt()
		var batch []gowarc.WarcRecord
		var idxs []int
		for x := 0; x < k; x++ {
			idx := t.nextInt()
			idxs = append(idxs, idx)
			batch = append(batch, recs[idx])
		}
		resps := w.Write(batch...)
		held = append(held, resps)
		heldCopy = append(heldCopy, append([]gowarc.WriteResponse(nil), resps...))
		var ro []string
		for x, rs := range resps {
			e := 0
			if rs.Err != nil {
				e = 1
			}
			ro = append(ro, fmt.Sprintf("%s@%d+%d!%d", rs.FileName, rs.FileOffset, rs.BytesWritten, e))
			all = append(all, written{idxs[x], rs})
		}
		obs = append(obs, "w:"+strings.Join(ro, ","))
	}
	if err := w.Close(); err != nil {
		obs = append(obs, "close:err")
	}
	// responses handed out earlier are the caller's: later calls must not change them
	for i := range held {
		for j := range held[i] {
			a, b := held[i][j], heldCopy[i][j]
			if a.FileName != b.FileName || a.FileOffset != b.FileOffset || a.BytesWritten != b.BytesWritten || (a.Err == nil) != (b.Err == nil) {
				return strings.Join(obs, ";"), fmt.Sprintf("FAIL:wrong-position:the response of Write call %d (%s@%d) reads %s@%d after later calls", i, b.FileName, b.FileOffset, a.FileName, a.FileOffset)
			}
		}
	}
	// files
	ents, _ := os.ReadDir(out)
	var names []string
	for _, e := range ents {
		names = append(names, e.Name())
	}
	sort.Strings(names)
	var fo []string
	sizes := map[string]int64{}
	for _, nme := range names {
		st, _ := os.Stat(filepath.Join(out, nme))
		sizes[nme] = st.Size()
		fo = append(fo, fmt.Sprintf("%s=%d", nme, st.Size()))
	}
	obs = append(obs, "files:"+strings.Join(fo, ","))
	var co []string
	for _, c := range callbacks {
		co = append(co, fmt.Sprintf("%s=%d=%s", filepath.Base(c.name), c.size, c.info))
	}
	obs = append(obs, "cb:"+strings.Join(co, ","))
	observation := strings.Join(obs, ";")

	// ---- executable statements ----
	suffix := ""
	if compress {
		suffix = ".gz"
	}
	seen := map[string]bool{}
	for _, nme := range names {
		if openSuffix != "" && strings.HasSuffix(nme, openSuffix) {
			return observation, "FAIL:open-file-left:" + nme + " still carries the in-progress suffix after Close"
		}
		if compress != strings.HasSuffix(nme, ".gz") || !strings.HasSuffix(strings.TrimSuffix(nme, ".gz"), ".warc") {
			return observation, "FAIL:bad-name:" + nme + " (compression suffix " + suffix + ")"
		}
		if seen[nme] {
			return observation, "FAIL:bad-name:duplicate name " + nme
		}
		seen[nme] = true
	}
	// sequential read of every file
	type seqRec struct {
		off  int64
		id   string
		typ  string
		info string
		fn   string
		cl   int64
		blk  string
	}
	fileRecs := map[string][]seqRec{}
	for _, nme := range names {
		rd, err := gowarc.NewWarcFileReader(filepath.Join(out, nme), 0, gowarc.WithStrictValidation(), gowarc.WithBufferTmpDir(tmp))
		if err != nil {
			return observation, "FAIL:unreadable-file:" + err.Error()
		}
		for {
			rec, off, v, err := rd.Next()
			if err != nil {
				if classify(err) != "eoh" {
					rd.Close()
					return observation, fmt.Sprintf("FAIL:unreadable-file:%s at %d: %v", nme, off, err)
				}
				if off != sizes[nme] {
					rd.Close()
					return observation, fmt.Sprintf("FAIL:eof-offset:%s: EOF offset %d, file length %d", nme, off, sizes[nme])
				}
				break
			}
			if !v.Valid() {
				rd.Close()
				return observation, fmt.Sprintf("FAIL:unreadable-file:%s at %d: findings %s", nme, off, kinds(v))
			}
			blk, _ := readBlock(rec)
			cl, _ := rec.ContentLength()
			fileRecs[nme] = append(fileRecs[nme], seqRec{off, rec.RecordId(), rec.Type().String(), rec.WarcHeader().GetId("WARC-Warcinfo-ID"),
				rec.WarcHeader().Get("WARC-Filename"), cl, blk})
			rec.Close()
		}
		rd.Close()
	}
	// C04: every acknowledged record is exactly at its reported position
	for _, wr := range all {
		if wr.resp.Err != nil {
			continue
		}
		want := recID(wr.idx)
		path := filepath.Join(out, wr.resp.FileName)
		rd, err := gowarc.NewWarcFileReader(path, wr.resp.FileOffset, gowarc.WithStrictValidation(), gowarc.WithBufferTmpDir(tmp))
		if err != nil {
			return observation, fmt.Sprintf("FAIL:wrong-position:cannot open %s at %d: %v", wr.resp.FileName, wr.resp.FileOffset, err)
		}
		rec, off, _, err := rd.Next()
		if err != nil || rec == nil {
			rd.Close()
			return observation, fmt.Sprintf("FAIL:wrong-position:record %s reported at %s@%d cannot be read there: %v", want, wr.resp.FileName, wr.resp.FileOffset, err)
		}
		blk, _ := readBlock(rec)
		got := rec.RecordId()
		rec.Close()
		rd.Close()
		if got != want || off != wr.resp.FileOffset || blk != string(bodies[wr.idx]) {
			return observation, fmt.Sprintf("FAIL:wrong-position:record %s reported at %s@%d, a reader there returns %s at %d", want, wr.resp.FileName, wr.resp.FileOffset, got, off)
		}
		found := false
		for _, sr := range fileRecs[wr.resp.FileName] {
			if sr.off == wr.resp.FileOffset && sr.id == want {
				found = true
			}
		}
		if !found {
			return observation, fmt.Sprintf("FAIL:wrong-position:sequential reader does not report %s at %s@%d", want, wr.resp.FileName, wr.resp.FileOffset)
		}
	}
	// C13
	for nme, rs := range fileRecs {
		nInfo := 0
		for i, sr := range rs {
			if sr.typ == "warcinfo" {
				nInfo++
				if i != 0 {
					return observation, "FAIL:warcinfo-rule:warcinfo record is not the first record of " + nme
				}
				if sr.fn != nme {
					return observation, fmt.Sprintf("FAIL:warcinfo-rule:warcinfo of %s names %q", nme, sr.fn)
				}
			}
		}
		if info {
			if nInfo != 1 || len(rs) == 0 {
				return observation, fmt.Sprintf("FAIL:warcinfo-rule:%s has %d warcinfo records", nme, nInfo)
			}
			for _, sr := range rs[1:] {
				if sr.info != rs[0].id {
					return observation, fmt.Sprintf("FAIL:warcinfo-rule:record %s in %s carries warcinfo id %q, the file's warcinfo is %q", sr.id, nme, sr.info, rs[0].id)
				}
			}
		} else if nInfo != 0 {
			return observation, "FAIL:warcinfo-rule:unexpected warcinfo record in " + nme
		}
		// fit rule: a file that already holds a data record takes another one only if it fits
		first := 0
		if info {
			first = 1
		}
		for i := first + 1; i < len(rs); i++ {
			size := rs[i].cl
			if compress {
				size = int64(float64(size) * ratio)
			}
			if max > 0 && rs[i].off+size > max {
				return observation, fmt.Sprintf("FAIL:fit-rule:%s: record at offset %d with declared (scaled) length %d was appended beyond the limit %d", nme, rs[i].off, size, max)
			}
		}
	}
	// a record that would have fitted must not start a fresh file (checked through the model correspondence)
	// callback arguments: final name, true size, warcinfo id
	for _, c := range callbacks {
		b := filepath.Base(c.name)
		if sizes[b] != c.size || !seen[b] {
			return observation, fmt.Sprintf("FAIL:callback-args:callback(%s, %d) but the file has %d bytes", b, c.size, sizes[b])
		}
		wantInfo := ""
		if info && len(fileRecs[b]) > 0 {
			wantInfo = fileRecs[b][0].id
		}
		if c.info != wantInfo {
			return observation, fmt.Sprintf("FAIL:callback-args:callback for %s got warcinfo id %q, want %q", b, c.info, wantInfo)
		}
	}
	if len(callbacks) != len(names) && !dup {
		return observation, fmt.Sprintf("FAIL:callback-args:%d callbacks for %d files", len(callbacks), len(names))
	}
	return observation, "OK"
}
