package main

// The oracle server answers questions about TRUSTED components (Go standard
// library and third-party parsers), never about gowarc itself.  The extracted
// Coq model takes these functions as parameters (Section variables).

import (
	"bufio"
	"bytes"
	"encoding/base32"
	"encoding/base64"
	"fmt"
	"mime"
	"net"
	"net/http"
	"os"
	"strconv"
	"strings"
	"time"

	kgz "github.com/klauspost/compress/gzip"
	"github.com/nlnwa/whatwg-url/url"
)

func oracleAnswer(kind string, args []string) string {
	switch kind {
	case "lower":
		return hxs(strings.ToLower(unhxs(args[0])))
	case "upper":
		return hxs(strings.ToUpper(unhxs(args[0])))
	case "mime":
		d := mime.WordDecoder{}
		s, err := d.DecodeHeader(unhxs(args[0]))
		if err != nil {
			return "err"
		}
		return hxs(s)
	case "url":
		p := url.NewParser()
		if _, err := p.Parse(unhxs(args[0])); err != nil {
			return "0"
		}
		return "1"
	case "b32dec":
		b, err := base32.StdEncoding.DecodeString(unhxs(args[0]))
		if err != nil {
			return "err"
		}
		return hx(b)
	case "b64dec":
		b, err := base64.StdEncoding.DecodeString(unhxs(args[0]))
		if err != nil {
			return "err"
		}
		return hx(b)
	case "gzsize":
		var b bytes.Buffer
		w, _ := kgz.NewWriterLevel(&b, kgz.DefaultCompression)
		w.Write(unhx(args[0]))
		w.Close()
		return strconv.Itoa(b.Len())
	case "scale":
		ratio, _ := strconv.ParseFloat(args[0], 64)
		size, _ := strconv.ParseInt(args[1], 10, 64)
		return strconv.FormatInt(int64(float64(size)*ratio), 10)
	case "urlid":
		if _, err := url.Parse(unhxs(args[0])); err != nil {
			return "0"
		}
		return "1"
	case "ip":
		if net.ParseIP(unhxs(args[0])) == nil {
			return "0"
		}
		return "1"
	case "time":
		if _, err := time.Parse(time.RFC3339, unhxs(args[0])); err != nil {
			return "0"
		}
		return "1"
	case "httpreq":
		if _, err := http.ReadRequest(bufio.NewReader(bytes.NewReader(unhx(args[0])))); err != nil {
			return "0"
		}
		return "1"
	case "httpresp":
		if _, err := http.ReadResponse(bufio.NewReader(bytes.NewReader(unhx(args[0]))), nil); err != nil {
			return "0"
		}
		return "1"
	}
	return "UNKNOWN-ORACLE"
}

func oracleServer() {
	in := bufio.NewScanner(os.Stdin)
	in.Buffer(make([]byte, 1<<20), 1<<28)
	out := bufio.NewWriter(os.Stdout)
	for in.Scan() {
		f := strings.Fields(in.Text())
		if len(f) == 0 {
			continue
		}
		fmt.Fprintln(out, oracleAnswer(f[0], f[1:]))
		out.Flush()
	}
}
