package main

// Domain "validate" (property C17): validateHeader on header sets.

import (
	"bufio"
	"bytes"
	"fmt"
	"math/rand"
	"strconv"
	"strings"

	gowarc "github.com/nlnwa/gowarc/v2"
)

func init() { domains["validate"] = &domain{gen: genValidate, run: runValidate} }

var fieldKinds = map[string]string{
	"Content-Length": "long", "Content-Type": "str", "WARC-Block-Digest": "str", "WARC-Concurrent-To": "id",
	"WARC-Date": "time", "WARC-Filename": "str", "WARC-IP-Address": "ip", "WARC-Identified-Payload-Type": "str",
	"WARC-Payload-Digest": "str", "WARC-Profile": "uri", "WARC-Record-ID": "id", "WARC-Refers-To": "id",
	"WARC-Refers-To-Date": "time", "WARC-Refers-To-Target-URI": "uri", "WARC-Segment-Number": "int",
	"WARC-Segment-Origin-ID": "id", "WARC-Segment-Total-Length": "long", "WARC-Target-URI": "uri",
	"WARC-Truncated": "str", "WARC-Type": "type", "WARC-Warcinfo-ID": "id", "WARC-Page-ID": "str",
	"WARC-Resource-Type": "str", "WARC-JSON-Metadata": "str",
}

var valuePools = map[string][2][]string{
	"long": {{"0", "1", "42", "9223372036854775807"}, {"-1", "+1", "0x10", "1_0", "", "1.5", "a", "9223372036854775808", " 1", "１"}},
	"int":  {{"0", "1", "7", "2147483647"}, {"-1", "+1", "0x10", "", "2147483648", "1e3", "one"}},
	"time": {{"2020-01-02T03:04:05Z", "2020-01-02T03:04:05.123456789Z", "2020-01-02T03:04:05+01:00"}, {"not-a-date", "2020-01-02", "2020-13-01T00:00:00Z", "", "2020-01-02 03:04:05Z"}},
	"ip":   {{"127.0.0.1", "::1", "2001:db8::1"}, {"999.1.1.1", "host", "1.2.3", "", "1.2.3.4.5", "fe80::1%eth0", "::1%1"}},
	"uri":  {{"http://example.com/", "https://a.b/c?d#e", "urn:uuid:6f1d9a0c-0b1a-4c7e-9c2f-000000000001"}, {"", "http//x", "://", "/relative", "http://[::1"}},
	"id":   {{"<urn:uuid:6f1d9a0c-0b1a-4c7e-9c2f-000000000001>", "<http://example.com/x>"}, {"urn:uuid:x", "<urn:uuid:x", "urn:uuid:x>", ">urn:uuid:x<", "<<urn:uuid:x>>", "<>", "", "<<urn:uuid:x", "urn:uuid:x>>"}},
	"str":  {{"text/plain", "x", "length"}, {""}},
	"type": {{"response"}, {""}},
}

var recTypes = []string{"warcinfo", "response", "resource", "request", "metadata", "revisit", "conversion", "continuation", "foo"}

func baseHeader(rt string, r *rand.Rand) [][2]string {
	h := [][2]string{
		{"WARC-Type", rt},
		{"WARC-Record-ID", "<urn:uuid:6f1d9a0c-0b1a-4c7e-9c2f-0000000000aa>"},
		{"WARC-Date", "2021-05-06T07:08:09Z"},
		{"Content-Length", "12"},
		{"Content-Type", "application/octet-stream"},
	}
	if rt == "revisit" {
		h = append(h, [2]string{"WARC-Profile", "http://netpreserve.org/warc/1.1/revisit/identical-payload-digest"})
	}
	return h
}

func fmtValidateCase(spec, unk, vid int, h [][2]string) string {
	var sb strings.Builder
	fmt.Fprintf(&sb, "validate %d %d %d %d", spec, unk, vid, len(h))
	for _, p := range h {
		fmt.Fprintf(&sb, " %s %s", hxs(p[0]), hxs(p[1]))
	}
	return sb.String()
}

func genValidate(r *rand.Rand, n int, tier string, out *bufio.Writer) {
	// (1) every field x record type x version cell, multiplicity 1 and 2, a valid and an invalid value
	names := make([]string, 0, len(fieldKinds))
	for _, k := range knownNames {
		names = append(names, k)
	}
	for _, f := range names {
		pool := valuePools[fieldKinds[f]]
		for _, rt := range recTypes {
			for vid := 0; vid <= 2; vid++ {
				for mult := 1; mult <= 2; mult++ {
					for good := 0; good < 2; good++ {
						h := baseHeader(rt, r)
						// drop the base occurrence of f so that the multiplicity is exact
						var hh [][2]string
						for _, p := range h {
							if p[0] != f {
								hh = append(hh, p)
							}
						}
						for i := 0; i < mult; i++ {
							hh = append(hh, [2]string{randCase(r, f), pick(r, pool[good])})
						}
						spec := 2 - (len(hh)+vid+mult+good)%2 // Warn or Fail
						unk := r.Intn(3)
						fmt.Fprintln(out, fmtValidateCase(spec, unk, vid, hh))
					}
				}
			}
		}
	}
	// (2) random header sets with several defects
	for i := 0; i < n; i++ {
		rt := pick(r, recTypes)
		if r.Intn(10) == 0 {
			rt = randCase(r, rt)
		}
		h := baseHeader(rt, r)
		// remove some mandatory fields
		var hh [][2]string
		for _, p := range h {
			if r.Intn(12) != 0 {
				hh = append(hh, p)
			}
		}
		k := r.Intn(5)
		for j := 0; j < k; j++ {
			var f string
			if r.Intn(6) == 0 {
				f = pick(r, unknownNames)
				hh = append(hh, [2]string{randCase(r, f), genValue(r)})
				continue
			}
			f = pick(r, names)
			pool := valuePools[fieldKinds[f]]
			good := 0
			if r.Intn(3) == 0 {
				good = 1
			}
			hh = append(hh, [2]string{randCase(r, f), pick(r, pool[good])})
		}
		r.Shuffle(len(hh), func(a, b int) { hh[a], hh[b] = hh[b], hh[a] })
		fmt.Fprintln(out, fmtValidateCase(r.Intn(3), r.Intn(3), pick(r, []int{1, 2, 2, 0}), hh))
	}
}

func findingKind(e error) string {
	m := e.Error()
	switch {
	case strings.Contains(m, "missing required field WARC-Type"):
		return "mt"
	case strings.Contains(m, "unrecognized value"):
		return "ut"
	case strings.Contains(m, "illegal field"):
		return "il"
	case strings.Contains(m, "field occurs more than once"):
		return "dup"
	case strings.Contains(m, "missing required field: Content-Type"):
		return "ct"
	case strings.Contains(m, "missing required field: "):
		return "mr"
	case strings.Contains(m, "not allowed for record type"):
		return "na"
	default:
		return "val"
	}
}

func runValidate(toks []string) (string, string) {
	t := &tokens{t: toks}
	spec, unk, vid, n := t.nextInt(), t.nextInt(), t.nextInt(), t.nextInt()
	var pairs [][2]string
	for i := 0; i < n; i++ {
		pairs = append(pairs, [2]string{t.nextStr(), t.nextStr()})
	}
	var obs string
	p := catch(func() {
		rt, after, findings, err := gowarc.VerifValidateHeader(pairs, vid, spec, unk)
		var ks []string
		for _, f := range findings {
			ks = append(ks, findingKind(f))
		}
		if err != nil {
			obs = fmt.Sprintf("err:%s;f=%s", findingKind(err), strings.Join(ks, ","))
		} else {
			obs = fmt.Sprintf("ok;rt=%d;f=%s;h=%s", rt, strings.Join(ks, ","), hxs(after))
		}
	})
	if p != "" {
		return "PANIC", "-"
	}
	// "under warn ... the record is still returned": the same header set through the parser
	if spec == 1 && strings.HasPrefix(obs, "ok;") {
		if why := warnStillReturns(pairs, vid, unk); why != "" {
			return obs, "FAIL:warn-drops-record:" + why
		}
	}
	return obs, "-"
}

// warnStillReturns sends the header set through Unmarshal under spec=warn (syntax warn, block
// ignore): when header validation itself returns the record, so does the parser.
func warnStillReturns(pairs [][2]string, vid, unk int) string {
	version := "1.1"
	if vid == 1 {
		version = "1.0"
	} else if vid != 2 {
		return ""
	}
	blockLen := 0
	for _, f := range pairs {
		if strings.TrimSpace(f[1]) != f[1] || strings.ContainsAny(f[0]+f[1], "\r\n") || strings.Contains(f[1], "=?") || f[0] == "" || strings.ContainsAny(f[0], ": \t") {
			return "" // not a header the parser reads back as given
		}
		if strings.EqualFold(f[0], "Content-Length") {
			if n, err := strconv.Atoi(f[1]); err == nil && n > 0 && n <= 64 {
				blockLen = n
			}
		}
	}
	data := serializeRecord(version, pairs, bytes.Repeat([]byte("b"), blockLen), "\r\n")
	var rec gowarc.WarcRecord
	var err error
	p := catch(func() {
		rec, _, _, err = gowarc.NewUnmarshaler(gowarc.VerifPolicies(1, 1, unk, 0), gowarc.WithAddMissingDigest(false)).Unmarshal(bufio.NewReader(bytes.NewReader(data)))
	})
	if rec != nil {
		rec.Close()
	}
	if p != "" {
		return "the parser panics on it: " + p
	}
	if rec == nil && err != nil {
		return "header validation returns the record under warn, Unmarshal returns only an error: " + err.Error()
	}
	return ""
}
