package main

// Domain "winfo" (C13): a warcinfo generator that fails now and then (its function returns an
// error, or it adds something the record options reject).  "With a warcinfo generator each file
// begins with exactly one warcinfo record that names that file, and every other record in the file
// carries that warcinfo's id" - also after a generator failure: no record may end up in a file that
// lacks its warcinfo record, and no half-made file may be left behind under a final name (which is
// also C12's "every file that carries its final name is a complete well-formed WARC file": the
// domain belongs to both).  No model run (the writer model has no failing generator).

import (
	"bufio"
	"bytes"
	"errors"
	"fmt"
	"math/rand"
	"os"
	"path/filepath"
	"strings"

	gowarc "github.com/nlnwa/gowarc/v2"
)

func init() { domains["winfo"] = &domain{gen: genWinfo, run: runWinfo} }

func genWinfo(r *rand.Rand, n int, tier string, out *bufio.Writer) {
	for i := 0; i < n; i++ {
		nrec := 2 + r.Intn(6)
		// which calls of the generator fail (bit k: the k-th call), how, compression, size limit in records, rotate after
		fmt.Fprintf(out, "winfo %d %d %d %d %d %d\n", nrec, r.Intn(16), r.Intn(2), r.Intn(2), pick(r, []int{0, 1, 2, 3}), r.Intn(nrec+1))
	}
}

func runWinfo(toks []string) (string, string) {
	t := &tokens{t: toks}
	nrec, failMask, how, compress, perFile, rotateAfter := t.nextInt(), t.nextInt(), t.nextInt(), t.nextInt() == 1, t.nextInt(), t.nextInt()
	dir, err := os.MkdirTemp("", "verif-winfo-")
	if err != nil {
		panic(err)
	}
	defer os.RemoveAll(dir)
	tmp, out := filepath.Join(dir, "tmp"), filepath.Join(dir, "out")
	os.Mkdir(tmp, 0o755)
	os.Mkdir(out, 0o755)
	gowarc.VerifSetNow(fixedNow)
	calls := 0
	recOpts := []gowarc.WarcRecordOption{gowarc.WithBufferTmpDir(tmp)}
	if how == 1 {
		recOpts = append(recOpts, gowarc.WithStrictValidation())
	}
	var max int64
	if perFile > 0 {
		max = int64(perFile)*420 + 500 // room for the warcinfo record and perFile records of about 400 bytes
	}
	opts := []gowarc.WarcFileWriterOption{
		gowarc.WithMaxFileSize(max), gowarc.WithCompression(compress), gowarc.WithExpectedCompressionRatio(1),
		gowarc.WithFileNameGenerator(&gowarc.PatternNameGenerator{Directory: out, Prefix: "i", Pattern: "%{prefix}s-%04{serial}d.%{ext}s", Extension: "warc"}),
		gowarc.WithMaxConcurrentWriters(1),
		gowarc.WithRecordOptions(recOpts...),
		gowarc.WithWarcInfoFunc(func(rb gowarc.WarcRecordBuilder) error {
			k := calls
			calls++
			if failMask>>(uint(k)%4)&1 == 1 {
				if how == 1 {
					rb.AddWarcHeader("WARC-Date", "not a date") // the strict record options reject the record
					return nil
				}
				return errors.New("the warcinfo generator failed")
			}
			_, err := rb.WriteString("software: verif\r\n")
			return err
		}),
	}
	w := gowarc.NewWarcFileWriter(opts...)
	type ack struct {
		resp gowarc.WriteResponse
		id   string
	}
	var acks []ack
	failed := 0
	for i := 0; i < nrec; i++ {
		rb := gowarc.NewRecordBuilder(gowarc.Resource, gowarc.WithBufferTmpDir(tmp), gowarc.WithRecordIdFunc(func() (string, error) { return recID(i), nil }))
		rb.AddWarcHeader("WARC-Date", "2021-05-06T07:08:09Z")
		rb.AddWarcHeader("Content-Type", "text/plain")
		rb.AddWarcHeader("WARC-Target-URI", fmt.Sprintf("http://example.com/%d", i))
		rb.WriteString(strings.Repeat("x", 100+i))
		rec, _, err := rb.Build()
		if err != nil {
			return "BUILDERR", "OK"
		}
		rs := w.Write(rec)
		if len(rs) != 1 {
			rec.Close()
			return "", fmt.Sprintf("FAIL:warcinfo-rule:%d responses for one record", len(rs))
		}
		if rs[0].Err == nil {
			acks = append(acks, ack{rs[0], rec.WarcHeader().Get("WARC-Record-ID")})
		} else {
			failed++
		}
		rec.Close()
		if i+1 == rotateAfter {
			w.Rotate()
		}
	}
	w.Close()
	ents, _ := os.ReadDir(out)
	files := map[string][]byte{}
	var obs []string
	for _, e := range ents {
		b, _ := os.ReadFile(filepath.Join(out, e.Name()))
		files[e.Name()] = b
		obs = append(obs, fmt.Sprintf("%s=%d", e.Name(), len(b)))
	}
	observation := fmt.Sprintf("acks=%d,failed=%d,calls=%d;%s", len(acks), failed, calls, strings.Join(obs, ","))
	for name, b := range files {
		if strings.HasSuffix(name, ".open") {
			return observation, "FAIL:bad-name:" + name + " is left under its in-progress name after Close"
		}
		rd, err := gowarc.NewWarcFileReaderFromStream(bytes.NewReader(b), 0, gowarc.WithBufferTmpDir(tmp))
		if err != nil {
			return observation, "FAIL:warcinfo-rule:" + name + " cannot be read: " + err.Error()
		}
		infoID, n := "", 0
		for {
			rec, _, _, err := rd.Next()
			if err != nil {
				if classify(err) != "eoh" {
					rd.Close()
					return observation, "FAIL:warcinfo-rule+crash-unsafe:" + name + " carries its final name and is not a sequence of whole records: " + err.Error()
				}
				break
			}
			h := rec.WarcHeader()
			switch {
			case n == 0 && (rec.Type() != gowarc.Warcinfo || h.Get("WARC-Filename") != name):
				rec.Close()
				rd.Close()
				return observation, fmt.Sprintf("FAIL:warcinfo-rule:%s begins with a %s record (WARC-Filename %q), not with its warcinfo record", name, rec.Type(), h.Get("WARC-Filename"))
			case n == 0:
				infoID = h.Get("WARC-Record-ID")
			case rec.Type() == gowarc.Warcinfo:
				rec.Close()
				rd.Close()
				return observation, "FAIL:warcinfo-rule:" + name + " holds a second warcinfo record"
			case h.Get("WARC-Warcinfo-ID") != infoID:
				rec.Close()
				rd.Close()
				return observation, fmt.Sprintf("FAIL:warcinfo-rule:a record in %s carries WARC-Warcinfo-ID %q, the file's warcinfo record is %s", name, h.Get("WARC-Warcinfo-ID"), infoID)
			}
			rec.Close()
			n++
		}
		rd.Close()
		if n == 0 {
			return observation, "FAIL:warcinfo-rule+crash-unsafe:" + name + " carries its final name and holds no record"
		}
	}
	for _, a := range acks {
		if got := recordIDAt(files[a.resp.FileName], a.resp.FileOffset); got != a.id {
			return observation, fmt.Sprintf("FAIL:warcinfo-rule:the record acknowledged at %s@%d is %s there, %s was written", a.resp.FileName, a.resp.FileOffset, got, a.id)
		}
	}
	return observation, "OK"
}
