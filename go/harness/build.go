package main

// Domain "build" (C02, C03 builder path, model tie for recordBuilder.Build).

import (
	"bufio"
	"bytes"
	"crypto/md5"
	"crypto/sha1"
	"crypto/sha256"
	"crypto/sha512"
	"encoding/base32"
	"encoding/base64"
	"encoding/hex"
	"fmt"
	"math/rand"
	"os"
	"strconv"
	"strings"

	gowarc "github.com/nlnwa/gowarc/v2"
)

func init() { domains["build"] = &domain{gen: genBuild, run: runBuild} }

var typeNames = map[int]string{1: "warcinfo", 2: "response", 4: "resource", 8: "request", 16: "metadata", 32: "revisit", 64: "conversion", 128: "continuation"}
var typeNums = []int{1, 2, 4, 8, 16, 32, 64, 128}

// independent digest computation (Go standard library only)
func refDigest(alg string, enc int, data []byte) string {
	var sum []byte
	switch alg {
	case "md5":
		s := md5.Sum(data)
		sum = s[:]
	case "sha1":
		s := sha1.Sum(data)
		sum = s[:]
	case "sha256":
		s := sha256.Sum256(data)
		sum = s[:]
	default:
		s := sha512.Sum512(data)
		sum = s[:]
	}
	switch enc {
	case 1:
		return alg + ":" + hex.EncodeToString(sum)
	case 2:
		return alg + ":" + base32.StdEncoding.EncodeToString(sum)
	default:
		return alg + ":" + base64.StdEncoding.EncodeToString(sum)
	}
}

var genericBodies = []string{"", "x", "hello world", "WARC/1.1\r\nWARC-Type: response\r\n\r\n", "\r\n\r\n", "\x1f\x8b\x08\x00", "a\r\n\r\nb", "\x00\x01\x02\xff"}
var wfBodies = []string{"software: x\r\nformat: WARC\r\n", "a: b\r\n\r\n", "a: b\r\n c\r\n", "nocolon\r\n", "a: b\nc: d\n", "a b\r\nx: y\r\n\rZ", "", "k: =?utf-8?q?v?=\r\n"}
var httpBodies = []string{
	"HTTP/1.1 200 OK\r\nContent-Type: text/html\r\n\r\n<html>payload</html>",
	"HTTP/1.1 200 OK\r\nContent-Type: text/html\r\n\r\n",
	"GET / HTTP/1.0\r\nHost: example.com\r\n\r\n",
	"POST /x HTTP/1.1\r\nHost: a\r\nContent-Length: 3\r\n\r\nabc",
	"HTTP/1.1 200 OK\r\nContent-Type: text/html\r\n",            // terminator missing
	"HTTP/1.1 200 OK\r\nX: y",                                       // no newline at all
	"HTTP/1.1 2x0 OK\r\n\r\nbody",                                   // unparsable status line
	"GET\r\n\r\n",                                                   // unparsable request line
	"HTTP/1.1 200 OK\nA: b\n\nlf only",
	"abc",
	"HTTP",
}

type genRecord struct {
	rt     int
	fields [][2]string
	body   []byte
}

func genRecordSpec(r *rand.Rand) genRecord {
	g := genRecord{rt: pick(r, typeNums)}
	ctype := "application/octet-stream"
	var body string
	switch x := r.Intn(10); {
	case x < 3:
		body = pick(r, genericBodies)
		if r.Intn(3) == 0 {
			body += string(genData(r, 300))
		}
	case x < 6:
		body = pick(r, httpBodies)
		if r.Intn(3) == 0 {
			body += string(genData(r, 200))
		}
		ctype = pick(r, []string{"application/http", "application/http; msgtype=response", "Application/HTTP"})
		if r.Intn(3) != 0 {
			g.rt = pick(r, []int{2, 8, 4, 64, 128, 32, 2, 8}) // 32: a revisit whose block goes on after the protocol header
		}
	case x < 8:
		body = pick(r, wfBodies)
		ctype = "application/warc-fields"
		if r.Intn(2) == 0 {
			g.rt = pick(r, []int{1, 16})
		}
	default:
		body = pick(r, genericBodies)
	}
	g.body = []byte(body)
	g.fields = append(g.fields, [2]string{"WARC-Date", "2021-05-06T07:08:09Z"})
	if len(body) > 0 || r.Intn(3) == 0 {
		g.fields = append(g.fields, [2]string{"Content-Type", ctype})
	}
	if g.rt == 32 {
		g.fields = append(g.fields, [2]string{"WARC-Profile", gowarc.ProfileIdenticalPayloadDigestV1_1})
	}
	if g.rt == 128 {
		g.fields = append(g.fields, [2]string{"WARC-Segment-Number", "2"}, [2]string{"WARC-Segment-Origin-ID", "<urn:uuid:1>"})
	}
	if g.rt&(2|4|8|16|32|64) != 0 && r.Intn(2) == 0 {
		g.fields = append(g.fields, [2]string{"WARC-Target-URI", "http://example.com/"})
	}
	return g
}

// supplied (possibly wrong) length / digest / id fields
func addDeclared(r *rand.Rand, g *genRecord, o ropts) {
	if r.Intn(4) == 0 {
		g.fields = append(g.fields, [2]string{"WARC-Record-ID", "<urn:uuid:00000000-0000-0000-0000-00000000abcd>"})
	}
	if r.Intn(4) == 0 {
		n := len(g.body) + pick(r, []int{0, 0, 0, 1, -1, 5})
		if n < 0 {
			n = 0
		}
		g.fields = append(g.fields, [2]string{"Content-Length", strconv.Itoa(n)})
	}
	if r.Intn(4) == 0 {
		alg, enc := pick(r, algs), 1+r.Intn(3)
		d := refDigest(alg, enc, g.body)
		switch r.Intn(5) {
		case 0: // corrupt one character of the value
			i := len(alg) + 1 + r.Intn(len(d)-len(alg)-1)
			c := d[i]
			if c == 'A' || c == 'a' {
				c = 'B'
			} else {
				c = 'A'
			}
			d = d[:i] + string(c) + d[i+1:]
		case 1:
			if enc != 3 { // other letter case (base16 / base32 are case-insensitive)
				d = alg + ":" + swapCase(d[len(alg)+1:])
			}
		case 2:
			d = strings.ToUpper(alg[:3]) + "-" + alg[3:] + d[len(alg):] // "SHA-1:..." style name
		}
		g.fields = append(g.fields, [2]string{"WARC-Block-Digest", d})
	}
	// a declared payload digest: correct, or in a spelling the library does not support
	if r.Intn(10) == 0 {
		g.fields = append(g.fields, [2]string{"WARC-Payload-Digest", pick(r, []string{"crc32:deadbeef", "sha3:00", "nocolon", "md5:", refDigest("sha1", 1, g.body)})})
	}
}

// refHTTPHeaderLen: the lines up to and including the first line shorter than three bytes
// (the empty line that ends a protocol header); found is false when the content has none
func refHTTPHeaderLen(content []byte) (int, bool) {
	pos := 0
	for pos < len(content) {
		i := bytes.IndexByte(content[pos:], '\n')
		if i < 0 {
			return len(content), false
		}
		pos += i + 1
		if i+1 < 3 {
			return pos, true
		}
	}
	return len(content), false
}

func swapCase(s string) string {
	b := []byte(s)
	for i, c := range b {
		if c >= 'a' && c <= 'z' {
			b[i] = c - 32
		} else if c >= 'A' && c <= 'Z' {
			b[i] = c + 32
		}
	}
	return string(b)
}

func fmtBuildCase(o ropts, g genRecord, feeds [][2]string) string {
	var sb strings.Builder
	fmt.Fprintf(&sb, "build %s %d %d", o, g.rt, len(g.fields))
	for _, f := range g.fields {
		fmt.Fprintf(&sb, " %s %s", hxs(f[0]), hxs(f[1]))
	}
	fmt.Fprintf(&sb, " %d", len(feeds))
	for _, f := range feeds {
		fmt.Fprintf(&sb, " %s %s", f[0], hxs(f[1]))
	}
	return sb.String()
}

func splitFeeds(r *rand.Rand, body []byte) [][2]string {
	var feeds [][2]string
	rest := body
	for k := 1 + r.Intn(3); k > 0; k-- {
		n := len(rest)
		if k > 1 {
			n = r.Intn(len(rest) + 1)
		}
		feeds = append(feeds, [2]string{pick(r, []string{"w", "ws", "rf"}), string(rest[:n])})
		rest = rest[n:]
	}
	return feeds
}

func genBuild(r *rand.Rand, n int, tier string, out *bufio.Writer) {
	for i := 0; i < n; i++ {
		o := genOpts(r)
		g := genRecordSpec(r)
		addDeclared(r, &g, o)
		if total := len(g.body); total > 0 && r.Intn(2) == 0 {
			o.thr = pick(r, []int{1, total / 2, total - 1, total, total + 1})
			if o.thr < 1 {
				o.thr = 1
			}
		}
		if lf := bytes.IndexByte(g.body, '\n'); lf > 0 && r.Intn(4) == 0 {
			// the spill threshold falls on or next to a line feed (the delimiter the block parsers search for)
			var lfs []int
			for i, c := range g.body {
				if c == '\n' {
					lfs = append(lfs, i)
				}
			}
			at := lfs[r.Intn(len(lfs))]
			o.thr = at + pick(r, []int{0, 1, -1, -99, -100, -101})
			if o.thr < 1 {
				o.thr = 1
			}
		}
		if r.Intn(60) == 0 && g.rt != 32 {
			// memory part = one or two 8 KiB read chunks exactly, the rest on disk
			o.thr = pick(r, []int{8192, 16384})
			g.body = append(g.body, genData(r, 300)...)
			g.body = append(g.body, bytes.Repeat([]byte("0123456789abcdef"), o.thr/16)...)
			for i := range g.fields {
				if strings.EqualFold(g.fields[i][0], "Content-Length") {
					g.fields[i][1] = strconv.Itoa(len(g.body))
				}
			}
		}
		fmt.Fprintln(out, fmtBuildCase(o, g, splitFeeds(r, g.body)))
	}
}

const fixedID = "urn:uuid:11111111-2222-3333-4444-555555555555"

func buildRecord(o ropts, rt int, fields [][2]string, feeds [][2]string, tmp string) (gowarc.WarcRecord, *gowarc.Validation, error) {
	rb := gowarc.NewRecordBuilder(gowarc.RecordType(rt), o.options(tmp, func() (string, error) { return fixedID, nil })...)
	for _, f := range fields {
		rb.AddWarcHeader(f[0], f[1])
	}
	for _, f := range feeds {
		switch f[0] {
		case "w":
			rb.Write([]byte(f[1]))
		case "ws":
			rb.WriteString(f[1])
		default:
			rb.ReadFrom(&chunkSource{data: []byte(f[1]), c: 7})
		}
	}
	return rb.Build()
}

func runBuild(toks []string) (string, string) {
	t := &tokens{t: toks}
	o := readOpts(t)
	rt, nf := t.nextInt(), t.nextInt()
	var fields [][2]string
	supplied := map[string]bool{}
	for i := 0; i < nf; i++ {
		f := [2]string{t.nextStr(), t.nextStr()}
		fields = append(fields, f)
		supplied[strings.ToLower(f[0])] = true
	}
	nfeeds := t.nextInt()
	var feeds [][2]string
	var content []byte
	for i := 0; i < nfeeds; i++ {
		m, d := t.next(), t.nextStr()
		feeds = append(feeds, [2]string{m, d})
		content = append(content, d...)
	}
	dir, err := os.MkdirTemp("", "verif-build-")
	if err != nil {
		panic(err)
	}
	defer os.RemoveAll(dir)
	var rec gowarc.WarcRecord
	var v *gowarc.Validation
	var berr error
	if p := catch(func() { rec, v, berr = buildRecord(o, rt, fields, feeds, dir) }); p != "" {
		return "PANIC", "FAIL:panic:Build panicked: " + p
	}
	if rec != nil {
		defer rec.Close()
	}
	if berr != nil {
		return fmt.Sprintf("err:%s;f=%s", classify(berr), kinds(v)), "OK"
	}
	// a second record of the same shape with other content, built after the first and alive while
	// the first is looked at: records do not share what they hold
	if (len(content)+nf+nfeeds)%2 == 0 {
		var other [][2]string
		for _, f := range feeds {
			other = append(other, [2]string{f[0], strings.Map(func(c rune) rune {
				if c >= 'a' && c <= 'y' {
					return c + 1
				}
				return c
			}, f[1])})
		}
		if decoy, _, _ := buildRecord(o, rt, fields, other, dir); decoy != nil {
			readBlock(decoy)
			defer decoy.Close()
		}
	}
	obs := "ok;" + showRecord(rec, v)
	// ---- C02: what the builder ADDED must be truthful ----
	blk, _ := readBlock(rec) // second read: the builder's blocks are cached
	h := rec.WarcHeader()
	if o.addCL == 1 && !supplied["content-length"] {
		want := strconv.Itoa(len(blk))
		if o.spec == 0 && !bytes.Equal([]byte(blk), content) {
			// under spec-ignore nothing repairs the length after a missing HTTP terminator was added
		}
		if h.Get("Content-Length") != want {
			if o.fixWF == 1 && (o.spec == 0 || o.fixCL == 0) && blockKind(rec.Block()) == "w" {
				// recorded known finding: the repaired warc-fields block changed size and nothing
				// corrects the length (ignore policy, or warn with the Content-Length repair off: the
				// mismatch is then reported as a finding but the stale value stays)
				return obs, fmt.Sprintf("FAIL:stale-length-after-wfblock-repair:Content-Length %q but %d block bytes are serialized", h.Get("Content-Length"), len(blk))
			}
			return obs, fmt.Sprintf("FAIL:untruthful-length:Content-Length %q but %d block bytes are serialized", h.Get("Content-Length"), len(blk))
		}
	}
	if o.addDig == 1 && !supplied["warc-block-digest"] {
		if want := refDigest(o.alg, o.enc, []byte(blk)); h.Get("WARC-Block-Digest") != want {
			return obs, fmt.Sprintf("FAIL:untruthful-block-digest:WARC-Block-Digest %q, digest of the serialized block %q", h.Get("WARC-Block-Digest"), want)
		}
	}
	if pb, ok := rec.Block().(gowarc.PayloadBlock); ok && o.addDig == 1 && !supplied["warc-payload-digest"] && rt != 32 && !supplied["warc-segment-number"] {
		if hb, ok := rec.Block().(gowarc.ProtocolHeaderBlock); ok {
			// where the protocol header ends is a fact about the content, not about the library's split
			if n, found := refHTTPHeaderLen(content); found && n != len(hb.ProtocolHeaderBytes()) {
				return obs, fmt.Sprintf("FAIL:untruthful-payload-digest:the protocol header of the content is %d bytes, the block's header part is %d bytes", n, len(hb.ProtocolHeaderBytes()))
			}
			payload := blk[len(hb.ProtocolHeaderBytes()):]
			if want := refDigest(o.alg, o.enc, []byte(payload)); h.Get("WARC-Payload-Digest") != want {
				return obs, fmt.Sprintf("FAIL:untruthful-payload-digest:WARC-Payload-Digest %q, digest of the payload %q", h.Get("WARC-Payload-Digest"), want)
			}
			_ = pb
		}
	}
	if o.addID == 1 && !supplied["warc-record-id"] && h.Get("WARC-Record-ID") != "<"+fixedID+">" {
		return obs, "FAIL:bad-record-id:generated id not bracketed: " + h.Get("WARC-Record-ID")
	}
	return obs, "OK"
}
