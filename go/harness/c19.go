package main

// Domains "hparse" (header sections as byte strings) and "hapi" (field sets built through the
// API) for property C19, also used by C05/C08.

import (
	"bufio"
	"errors"
	"fmt"
	"io"
	"math/rand"
	"strings"

	gowarc "github.com/nlnwa/gowarc/v2"
)

func init() {
	domains["hparse"] = &domain{gen: genHparse, run: runHparse}
	domains["hapi"] = &domain{gen: genHapi, run: runHapi}
}

var errInjected = errors.New("injected read error")

// tailReader delivers data in chunks and then reports io.EOF or errInjected for ever.  A negative
// chunk size means: chunks of that size, and the last bytes are returned TOGETHER with io.EOF
// (legal for an io.Reader; network and wrapping readers do it).
type tailReader struct {
	data  []byte
	chunk int
	bad   bool
	read  int
}

func (t *tailReader) Read(p []byte) (int, error) {
	if len(t.data) == 0 {
		if t.bad {
			return 0, errInjected
		}
		return 0, io.EOF
	}
	n := len(p)
	chunk := t.chunk
	if chunk < 0 {
		chunk = -chunk
	}
	if chunk > 0 && n > chunk {
		n = chunk
	}
	if n > len(t.data) {
		n = len(t.data)
	}
	copy(p, t.data[:n])
	t.data = t.data[n:]
	t.read += n
	if t.chunk < 0 && len(t.data) == 0 && !t.bad {
		return n, io.EOF
	}
	return n, nil
}

var headerLines = []string{
	"P: 100% a%20b %s %d", "T: text/plain; \r\n charset=utf-8", "U: a\t\r\n\tb \r\n c", "V: x \n y", "WARC-Type: response", "warc-type:request", "Content-Length: 12", "content-length : 7 ", "X-Custom: a: b",
	"WARC-Date: 2020-01-02T03:04:05Z", "WARC-Record-ID: <urn:uuid:1>", "NoColonHere", ": emptyname", "Name:",
	"  leading: space", "folded: first", " continued", "\tcontinued tab", "x:y\rz", "caf\xc3\xa9: \xe2\x82\xac",
	"A: =?utf-8?q?x?=", "B: =?utf-8?q?x=0D=0AEvil:_1?=", "C: =?utf-8?q?=3D=3Futf-8=3Fq=3Fy=3F=3D?=", "D: =?bogus?x?y?=", "H: =?windows-1252?Q?caf=E9?=",
	"E: =?utf-8?b?djEgCQ==?=", "F: =?utf-8?q?text/plain=0A?=", "G: a=?b", "\x00\x01: \x7f", "a b: c d", "Key: v\x0bw", "K\xc2\xa0: \xc2\xa0v\xc2\xa0",
}
var lineEnds = []string{"\r\n", "\r\n", "\r\n", "\r\n", "\n", "\r\r\n", "\r", ""}

func genHeaderSection(r *rand.Rand) []byte {
	var sb strings.Builder
	n := 1 + r.Intn(5)
	for i := 0; i < n; i++ {
		if r.Intn(400) == 0 {
			sb.WriteString("L: " + longValue(r)) // longer than a bufio buffer
		} else {
			sb.WriteString(pick(r, headerLines))
		}
		if i == n-1 && r.Intn(6) == 0 {
			break // no line end at all
		}
		sb.WriteString(pick(r, lineEnds))
	}
	switch r.Intn(8) {
	case 0:
	case 1:
		sb.WriteString("\n")
	case 2:
		sb.WriteString("\r\nrest of the stream")
	case 3:
		sb.WriteString("\r")
	case 4:
		sb.WriteString("\n\nx")
	default:
		sb.WriteString("\r\n")
	}
	b := []byte(sb.String())
	switch r.Intn(10) {
	case 0: // flip a byte
		if len(b) > 0 {
			b[r.Intn(len(b))] = byte(r.Intn(256))
		}
	case 1: // truncate
		b = b[:r.Intn(len(b)+1)]
	}
	return b
}

// a well-formed section of n fields whose first field is padded so that line ends fall on every
// position relative to bufio's 4096-byte buffer
func bigHeaderSection(r *rand.Rand, pad int) []byte {
	var sb strings.Builder
	fmt.Fprintf(&sb, "X-Pad: %s\r\n", strings.Repeat("p", pad))
	for i := 0; sb.Len() < 9000; i++ {
		fmt.Fprintf(&sb, "X-Field-%d: value of %d\r\n", i, i)
		if i%7 == 3 {
			fmt.Fprintf(&sb, "\tsecond part of %d\r\n", i)
		}
	}
	sb.WriteString("\r\n")
	return []byte(sb.String())
}

func genHparse(r *rand.Rand, n int, tier string, out *bufio.Writer) {
	for i := 0; i < n; i++ {
		var data []byte
		tail := 0
		if i%40 == 7 {
			data = bigHeaderSection(r, r.Intn(140))
		} else if i%1000 == 23 {
			// one field folded over three long lines: every physical line is short of 4096 bytes, the
			// unfolded field (one physical line when serialized again) is longer than 8192
			k := 2800 + r.Intn(400)
			data = []byte("Before: x\r\nL: " + strings.Repeat("a", k) + "\r\n " + strings.Repeat("b", k) + "\r\n\t" + strings.Repeat("c", k) + "\r\nAfter: y\r\n\r\n")
		} else {
			data = genHeaderSection(r)
			if r.Intn(8) == 0 {
				tail = 1
			}
		}
		fmt.Fprintf(out, "hparse %d %d %d %s\n", r.Intn(3), tail, pick(r, []int{0, 0, 1, 3, 64}), hx(data))
	}
}

func parseOnce(data []byte, policy int, bad bool, chunk int) (wf *gowarc.WarcFields, nf int, err error, consumed int, panicked string) {
	tr := &tailReader{data: data, chunk: chunk, bad: bad}
	br := bufio.NewReader(tr)
	panicked = catch(func() {
		var f []error
		wf, f, err = gowarc.VerifParseFields(br, policy)
		nf = len(f)
	})
	consumed = tr.read - br.Buffered()
	return
}

func runHparse(toks []string) (string, string) {
	t := &tokens{t: toks}
	policy, tail, chunk, data := t.nextInt(), t.nextInt(), t.nextInt(), t.nextHex()
	type result struct {
		obs string
		wf  *gowarc.WarcFields
		err error
	}
	if tooManyHangs() {
		return "SKIPPED", "-"
	}
	done := make(chan result, 1)
	go func() {
		wf, nf, err, consumed, p := parseOnce(data, policy, tail == 1, chunk)
		if p != "" {
			done <- result{obs: "PANIC"}
			return
		}
		cls := gowarc.VerifErrClass(err)
		if err == errInjected {
			cls = "read"
		}
		if err != nil {
			done <- result{obs: fmt.Sprintf("%s;n=%d", cls, nf), err: err}
			return
		}
		done <- result{obs: fmt.Sprintf("nil;n=%d;f=%s;c=%d", nf, hxs(wf.String()), consumed), wf: wf}
	}()
	var res result
	select {
	case res = <-done:
	case <-timeAfter(3):
		noteHang()
		return "TIMEOUT", "FAIL:hang:header parser did not return within 3s"
	}
	if res.obs == "PANIC" {
		return res.obs, "FAIL:panic:header parser panicked"
	}
	if res.err != nil || res.wf == nil {
		return res.obs, "OK"
	}
	// C19: serialize the parsed fields and parse again: identical list, no findings
	// (the blank line belongs to the marshaler; an empty field list serializes to the empty string)
	text := res.wf.String()
	if text != "" {
		text += "\r\n"
	}
	wf2, nf2, err2, _, p2 := parseOnce([]byte(text), policy, false, 0)
	// the recorded known finding: a decoded encoded-word left CR, LF or another "=?" inside a
	// parsed name or value; every other failure of the fixpoint is a new violation
	kind := "not-fixpoint"
	for _, nv := range *res.wf {
		if strings.ContainsAny(nv.Name+nv.Value, "\r\n") || strings.Contains(nv.Name+nv.Value, "=?") {
			if strings.Contains(string(data), "=?") {
				kind = "encoded-word"
			}
		}
	}
	switch {
	case p2 != "":
		return res.obs, "FAIL:" + kind + ":second parse panicked"
	case err2 != nil:
		return res.obs, "FAIL:" + kind + ":second parse fails: " + gowarc.VerifErrClass(err2)
	case nf2 != 0:
		return res.obs, fmt.Sprintf("FAIL:%s:second parse has %d findings", kind, nf2)
	case wf2.String() != res.wf.String() || fieldPairs(wf2) != fieldPairs(res.wf):
		return res.obs, "FAIL:" + kind + ":second parse yields different fields"
	}
	return res.obs, "OK"
}

// ---- API-built field sets ----
var tokenNames = []string{"x-foo", "X-Bar-Baz", "a", "name1", "WARC-Type", "warc-date", "Content-Length", "x_y.z", "9lives", "WARC-Concurrent-To"}
var apiValues = []string{"a%20b", "100%", "%s %d", "v", "value with spaces", "a: b", "x:y", "<urn:uuid:1>", "12", "", "\tlead", "trail ", " both ", "caf\xc3\xa9", "\xc2\xa0nbsp\xc2\xa0",
	"\xe3\x80\x80ideographic", "a\x0bb", "\x0cformfeed", "=?utf-8?q?x?=", "semi;colon", "tab\tinside", "\x00nul", "\x85next", "v\xe2\x80\x80"}

func genHapi(r *rand.Rand, n int, tier string, out *bufio.Writer) {
	for i := 0; i < n; i++ {
		k := 1 + r.Intn(6)
		var sb strings.Builder
		fmt.Fprintf(&sb, "hapi %d %d", r.Intn(3), k)
		for j := 0; j < k; j++ {
			v := pick(r, apiValues)
			if r.Intn(5) == 0 {
				v = genValue(r)
			}
			if r.Intn(300) == 0 {
				v = longValue(r)
			}
			fmt.Fprintf(&sb, " %s %s", hxs(randCase(r, pick(r, tokenNames))), hxs(v))
		}
		fmt.Fprintln(out, sb.String())
	}
}

func runHapi(toks []string) (string, string) {
	t := &tokens{t: toks}
	policy, k := t.nextInt(), t.nextInt()
	wf := &gowarc.WarcFields{}
	edge, enc := false, false
	for i := 0; i < k; i++ {
		n, v := t.nextStr(), t.nextStr()
		wf.Add(n, v)
		if v != strings.Trim(v, " \t") {
			edge = true
		}
		if strings.Contains(v, "=?") {
			enc = true
		}
	}
	if k > 0 {
		wf.Write(&failAfter{n: k}) // the destination breaks: later serializations are not affected
	}
	text := wf.String() + "\r\n"
	wf2, nf, err, _, p := parseOnce([]byte(text), policy, false, 0)
	if p != "" {
		return "PANIC", "FAIL:panic:parser panicked on API-built fields"
	}
	obs := fmt.Sprintf("%s;n=%d", gowarc.VerifErrClass(err), nf)
	kind := "api-roundtrip"
	if enc {
		kind = "encoded-word"
	} else if edge {
		kind = "trimmed-value"
	}
	if err != nil {
		return obs, "FAIL:" + kind + ":serialized API-built fields do not parse"
	}
	obs += ";f=" + hxs(wf2.String())
	if nf != 0 {
		return obs, "FAIL:" + kind + ":findings on serialized API-built fields"
	}
	// names and values as the API holds them (not their serialization, which both sides share)
	if wf2.String() != wf.String() || fieldPairs(wf2) != fieldPairs(wf) {
		return obs, "FAIL:" + kind + ":fields changed by serialize-then-parse"
	}
	return obs, "OK"
}

func fieldPairs(wf *gowarc.WarcFields) string {
	if wf == nil {
		return ""
	}
	var sb strings.Builder
	for _, nv := range *wf {
		sb.WriteString(nv.Name + "\x00" + nv.Value + "\x01")
	}
	return sb.String()
}
