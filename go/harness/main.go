// Command verifharness is compiled INTO /repo's module (go build -overlay) so it
// always runs the working tree's code.  It generates cases, runs them on the
// implementation and prints canonical observations (tie T-B), and evaluates
// the executable statements of the properties on the implementation.
//
//	verifharness gen <domain> <seed> <n> <tier>     case lines on stdout
//	verifharness run <domain> <cases.txt>           one "<obs>\t<verdict>" line per case
//	verifharness oracle                             answers oracle questions line by line
package main

import (
	"bufio"
	"fmt"
	"math/rand"
	"os"
	"strconv"
	"strings"
)

type domain struct {
	gen func(r *rand.Rand, n int, tier string, out *bufio.Writer)
	run func(toks []string) (obs string, verdict string)
}

var domains = map[string]*domain{}

func main() {
	if len(os.Args) < 2 {
		fmt.Fprintln(os.Stderr, "usage: verifharness gen|run|oracle ...")
		os.Exit(2)
	}
	out := bufio.NewWriterSize(os.Stdout, 1<<20)
	defer out.Flush()
	switch os.Args[1] {
	case "gen":
		d := domains[os.Args[2]]
		if d == nil {
			fmt.Fprintln(os.Stderr, "unknown domain", os.Args[2])
			os.Exit(2)
		}
		seed, _ := strconv.ParseInt(os.Args[3], 10, 64)
		n, _ := strconv.Atoi(os.Args[4])
		d.gen(rand.New(rand.NewSource(seed)), n, os.Args[5], out)
	case "run":
		d := domains[os.Args[2]]
		if d == nil {
			fmt.Fprintln(os.Stderr, "unknown domain", os.Args[2])
			os.Exit(2)
		}
		f, err := os.Open(os.Args[3])
		if err != nil {
			fmt.Fprintln(os.Stderr, err)
			os.Exit(2)
		}
		sc := bufio.NewScanner(f)
		sc.Buffer(make([]byte, 1<<20), 1<<28)
		for sc.Scan() {
			toks := strings.Fields(sc.Text())
			if len(toks) == 0 {
				fmt.Fprintln(out, "EMPTY\t-")
				continue
			}
			obs, verdict := runGuarded(d, toks[1:])
			fmt.Fprintf(out, "%s\t%s\n", obs, verdict)
			out.Flush() // a later case may kill the process (fatal runtime error, race detector)
		}
	case "oracle":
		oracleServer()
	case "ids":
		n, _ := strconv.Atoi(os.Args[2])
		w, _ := strconv.Atoi(os.Args[3])
		out.Flush()
		runIds(n, w)
	default:
		fmt.Fprintln(os.Stderr, "unknown command", os.Args[1])
		os.Exit(2)
	}
}

// runGuarded turns a panic that escapes a domain runner into an observation.
func runGuarded(d *domain, toks []string) (obs, verdict string) {
	defer func() {
		if e := recover(); e != nil {
			obs, verdict = "HARNESS-PANIC "+strings.ReplaceAll(fmt.Sprint(e), "\n", " "), "-"
		}
	}()
	return d.run(toks)
}
