package main

// Domain "block" (property C16): accessor call sequences on blocks.

import (
	"bufio"
	"bytes"
	"fmt"
	"io"
	"math/rand"
	"os"
	"strings"

	gowarc "github.com/nlnwa/gowarc/v2"
)

func init() { domains["block"] = &domain{gen: genBlock, run: runBlock} }

var httpHeads = []string{
	"HTTP/1.1 200 OK\r\nContent-Type: text/html\r\n\r\n",
	"HTTP/1.1 404 Not Found\r\nX: y\r\n\r\n",
	"GET / HTTP/1.0\r\nHost: example.com\r\n\r\n",
	"POST /x HTTP/1.1\r\nHost: a\r\nContent-Length: 3\r\n\r\n",
	"HTTP/1.1 200 OK\n\n",
}
var algs = []string{"md5", "sha1", "sha256", "sha512"}

func genBlock(r *rand.Rand, n int, tier string, out *bufio.Writer) {
	for i := 0; i < n; i++ {
		kind := pick(r, []string{"g", "g", "h", "h", "h", "w", "v"})
		head := ""
		body := genData(r, 40)
		if i%6 == 0 {
			body = genData(r, 700)
		}
		switch kind {
		case "h":
			head = pick(r, httpHeads)
		case "w":
			body = []byte(pick(r, []string{"a: b\r\nc: d\r\n", "software: x\r\n\r\n", ""}))
		}
		cached := r.Intn(2)
		if kind == "w" || kind == "v" {
			cached = 1
		}
		total := len(head) + len(body)
		maxMem := pick(r, []int{1, 2, len(head) + 1, total / 2 + 1, total, total + 1, 1 << 16})
		if maxMem < 1 {
			maxMem = 1
		}
		nops := 1 + r.Intn(8)
		var sb strings.Builder
		fmt.Fprintf(&sb, "block %s %d %s %d %d %s %s %d", kind, cached, pick(r, algs), 1+r.Intn(3), maxMem, hxs(head), hx(body), nops)
		for j := 0; j < nops; j++ {
			drain := pick(r, []int{-1, -1, 0, 1, 3, len(head), len(head) + 1, total / 2, total, total + 5, 1000, 1001, 1000 + len(head), 1000 + total/2})
			switch x := r.Intn(100); {
			case x < 30:
				fmt.Fprintf(&sb, " raw %d", drain)
			case x < 45:
				if kind == "h" {
					fmt.Fprintf(&sb, " pay %d", drain)
				} else {
					fmt.Fprintf(&sb, " raw %d", drain)
				}
			case x < 60:
				sb.WriteString(" bd")
			case x < 68:
				if kind == "h" {
					sb.WriteString(" pd")
				} else {
					sb.WriteString(" bd")
				}
			case x < 80:
				sb.WriteString(" size")
			case x < 92:
				sb.WriteString(" cache")
			default:
				sb.WriteString(" isc")
			}
		}
		fmt.Fprintln(out, sb.String())
	}
}

func drainReader(rd io.Reader, k int) string {
	if k < 0 {
		b, err := io.ReadAll(rd)
		if err != nil {
			return "d:READERR"
		}
		return "d:" + hx(b)
	}
	if k >= 1000 {
		// read k-1000 bytes, then hand the reader to io.Copy (which uses WriteTo when there is one)
		buf := make([]byte, k-1000)
		n, err := io.ReadFull(rd, buf)
		if err != nil && err != io.EOF && err != io.ErrUnexpectedEOF {
			return "d:READERR"
		}
		var rest bytes.Buffer
		if _, err := io.Copy(&rest, rd); err != nil {
			return "d:READERR"
		}
		return "d:" + hx(append(buf[:n], rest.Bytes()...))
	}
	buf := make([]byte, k)
	n, err := io.ReadFull(rd, buf)
	if err != nil && err != io.EOF && err != io.ErrUnexpectedEOF {
		return "d:READERR"
	}
	return "d:" + hx(buf[:n])
}

func runBlock(toks []string) (string, string) {
	t := &tokens{t: toks}
	kind, cached, alg, enc, maxMem := t.next(), t.nextInt(), t.next(), t.nextInt(), t.nextInt()
	head, body, nops := t.nextHex(), t.nextHex(), t.nextInt()
	dir, err := os.MkdirTemp("", "verif-block-")
	if err != nil {
		panic(err)
	}
	defer os.RemoveAll(dir)
	content := append(append([]byte{}, head...), body...)
	var obs []string
	var blk gowarc.Block
	if p := catch(func() { blk, err = gowarc.VerifNewBlock(kind, content, cached == 1, alg, enc, int64(maxMem), dir) }); p != "" {
		return "PANIC-NEW", "-"
	}
	if err != nil || blk == nil {
		return "NEWERR", "-"
	}
	defer blk.Close()
	// another block of the same kind and size with other bytes, made after the first and alive with
	// it: blocks do not share what they hold
	if len(content)%2 == 0 {
		other := bytes.Map(func(c rune) rune {
			if c >= 'a' && c <= 'y' {
				return c + 1
			}
			return c
		}, content)
		var decoy gowarc.Block
		catch(func() { decoy, _ = gowarc.VerifNewBlock(kind, other, cached == 1, alg, enc, int64(maxMem), dir) })
		if decoy != nil {
			if rd, err := decoy.RawBytes(); err == nil {
				io.Copy(io.Discard, rd)
			}
			defer decoy.Close()
		}
	}
	for i := 0; i < nops; i++ {
		op := t.next()
		var o string
		p := catch(func() {
			switch op {
			case "raw":
				k := t.nextInt()
				rd, err := blk.RawBytes()
				if err != nil {
					o = "err"
				} else {
					o = drainReader(rd, k)
				}
			case "pay":
				k := t.nextInt()
				rd, err := blk.(gowarc.PayloadBlock).PayloadBytes()
				if err != nil {
					o = "err"
				} else {
					o = drainReader(rd, k)
				}
			case "bd":
				o = "s:" + hxs(blk.BlockDigest())
			case "pd":
				o = "s:" + hxs(blk.(gowarc.PayloadBlock).PayloadDigest())
			case "size":
				o = fmt.Sprintf("n:%d", blk.Size())
			case "cache":
				if err := blk.Cache(); err != nil {
					o = "err"
				} else {
					o = "-"
				}
			case "isc":
				if blk.IsCached() {
					o = "b:1"
				} else {
					o = "b:0"
				}
			default:
				panic("HARNESS: unknown op " + op)
			}
		})
		if p != "" {
			if strings.HasPrefix(p, "HARNESS") {
				panic(p)
			}
			obs = append(obs, "PANIC")
			break
		}
		obs = append(obs, o)
	}
	return strings.Join(obs, ";"), "-"
}
