package main

// Domain "names" (C13): file names are unique, also when several workers of one writer (or several
// writers sharing the generator) ask the name generator at the same time.  The executable statement
// is what Model/Serial.v proves of one atomic add per call (C13_names_distinct_under_every_schedule,
// C13_int32_serials_distinct_within_2_32_calls): starting from serial c the n calls are handed
// c+1 .. c+n (int32 arithmetic), each once, and every caller sees its own serials in that order.

import (
	"bufio"
	"fmt"
	"math"
	"math/rand"
	"sync"

	gowarc "github.com/nlnwa/gowarc/v2"
)

func init() { domains["names"] = &domain{gen: genNames, run: runNames} }

func genNames(r *rand.Rand, n int, tier string, out *bufio.Writer) {
	for i := 0; i < n; i++ {
		c0 := pick(r, []int{0, 0, 0, 7, -3, math.MaxInt32 - 100, math.MaxInt32 - 1, math.MinInt32})
		fmt.Fprintf(out, "names %d %d %d %d\n", 1+r.Intn(6), 50+r.Intn(400), r.Intn(2), c0)
	}
}

func runNames(toks []string) (string, string) {
	t := &tokens{t: toks}
	workers, each, custom := t.nextInt(), t.nextInt(), t.nextInt() == 1
	c0 := int32(0)
	if !t.done() {
		c0 = int32(t.nextInt())
	}
	gen := &gowarc.PatternNameGenerator{Directory: "d", Prefix: "p", Serial: c0}
	if custom {
		gen.Pattern = "%{prefix}s-%{serial}d.%{ext}s"
		gen.Extension = "warc"
	}
	names := make([][]string, workers)
	var wg sync.WaitGroup
	start := make(chan struct{})
	for g := 0; g < workers; g++ {
		wg.Add(1)
		go func(g int) {
			defer wg.Done()
			<-start
			for i := 0; i < each; i++ {
				_, name := gen.NewWarcfileName()
				names[g] = append(names[g], name)
			}
		}(g)
	}
	close(start)
	wg.Wait()
	seen := map[string]bool{}
	total := 0
	for _, l := range names {
		for _, nme := range l {
			total++
			if seen[nme] {
				return fmt.Sprintf("n=%d", total), "FAIL:bad-name:the name generator handed out " + nme + " twice"
			}
			seen[nme] = true
		}
	}
	obs := fmt.Sprintf("n=%d", total)
	if custom {
		// the serials: c0+1 .. c0+n in int32 arithmetic, each once; increasing for every caller
		got := map[uint32]bool{}
		for g, l := range names {
			last := uint32(0)
			for _, nme := range l {
				var s int32
				if _, err := fmt.Sscanf(nme, "p-%d.warc", &s); err != nil {
					return obs, "FAIL:bad-name:the name " + nme + " does not follow the pattern %{prefix}s-%{serial}d.%{ext}s"
				}
				d := uint32(s) - uint32(c0) // position of the serial after c0
				if d == 0 || d > uint32(total) || got[d] {
					return obs, fmt.Sprintf("FAIL:bad-name:serial %d is not one of the %d serials after %d, each handed out once", s, total, c0)
				}
				if d <= last {
					return obs, fmt.Sprintf("FAIL:bad-name:caller %d got serial %d after a later one", g, s)
				}
				got[d], last = true, d
			}
		}
	}
	return obs, "OK"
}
