package main

// Domain "names" (C13): file names are unique, also when several workers of one writer (or several
// writers sharing the generator) ask the name generator at the same time.  No model run.

import (
	"bufio"
	"fmt"
	"math/rand"
	"sync"

	gowarc "github.com/nlnwa/gowarc/v2"
)

func init() { domains["names"] = &domain{gen: genNames, run: runNames} }

func genNames(r *rand.Rand, n int, tier string, out *bufio.Writer) {
	for i := 0; i < n; i++ {
		fmt.Fprintf(out, "names %d %d %d\n", 1+r.Intn(6), 50+r.Intn(400), r.Intn(2))
	}
}

func runNames(toks []string) (string, string) {
	t := &tokens{t: toks}
	workers, each, custom := t.nextInt(), t.nextInt(), t.nextInt() == 1
	gen := &gowarc.PatternNameGenerator{Directory: "d", Prefix: "p"}
	if custom {
		gen.Pattern = "%{prefix}s-%{serial}d.%{ext}s"
		gen.Extension = "warc"
	}
	names := make([][]string, workers)
	var wg sync.WaitGroup
	start := make(chan struct{})
	for g := 0; g < workers; g++ {
		wg.Add(1)
		go func(g int) {
			defer wg.Done()
			<-start
			for i := 0; i < each; i++ {
				_, name := gen.NewWarcfileName()
				names[g] = append(names[g], name)
			}
		}(g)
	}
	close(start)
	wg.Wait()
	seen := map[string]bool{}
	total := 0
	for _, l := range names {
		for _, nme := range l {
			total++
			if seen[nme] {
				return fmt.Sprintf("n=%d", total), "FAIL:bad-name:the name generator handed out " + nme + " twice"
			}
			seen[nme] = true
		}
	}
	return fmt.Sprintf("n=%d", total), "OK"
}
