package main

// Domain "rev" (property C20): ToRevisitRecord / CreateRevisitRef / RevisitRef / Merge.

import (
	"bufio"
	"bytes"
	"fmt"
	"math/rand"
	"os"
	"strconv"
	"strings"

	gowarc "github.com/nlnwa/gowarc/v2"
)

func init() { domains["rev"] = &domain{gen: genRev, run: runRev} }

var profiles = []string{gowarc.ProfileIdenticalPayloadDigestV1_1, gowarc.ProfileServerNotModifiedV1_1,
	gowarc.ProfileIdenticalPayloadDigestV1_0, gowarc.ProfileServerNotModifiedV1_0}

func genRev(r *rand.Rand, n int, tier string, out *bufio.Writer) {
	for i := 0; i < n; i++ {
		o := genOpts(r)
		o.syntax, o.spec, o.unknown, o.block, o.skip = 1, 1, 1, 0, 0
		o.addID, o.addCL, o.addDig, o.fixCL, o.fixDig, o.fixSyn, o.fixWF = 1, 1, 1, 1, 1, 1, 0
		rt := pick(r, []int{2, 8})
		head := "HTTP/1.1 200 OK\r\nContent-Type: text/html\r\n"
		if rt == 8 {
			head = "GET /x HTTP/1.1\r\nHost: example.com\r\n"
		}
		if r.Intn(4) == 0 { // a long header (beyond one bufio buffer when read from a stream)
			head += "Cookie: " + strings.Repeat("c", pick(r, []int{3000, 6000, 9000})) + "\r\n"
		}
		head += "\r\n"
		// line ends of the protocol header: all CRLF (mostly), all LF, or mixed
		switch r.Intn(8) {
		case 0:
			head = strings.ReplaceAll(head, "\r\n", "\n")
		case 1: // the last header line ends in a bare LF, the empty line is CRLF
			head = head[:len(head)-4] + "\n\r\n"
		case 2: // header lines CRLF, the empty line a bare LF
			head = head[:len(head)-2] + "\n"
		}
		payload := genData(r, pick(r, []int{0, 20, 500}))
		total := len(head) + len(payload)
		o.thr = pick(r, []int{1, len(head), total / 2, total, total + 1, 1 << 16})
		date := pick(r, []string{"2017-03-06T04:03:53Z", "2017-03-06T04:03:53.123456789Z", "2017-03-06T06:03:53+02:00"})
		// the original declares its payload digest itself, correct but spelled its own way:
		// 0 not declared, 1 upper-case hex, 2 lower-case base32, 3 algorithm written SHA-1
		fmt.Fprintf(out, "rev %s %d %s %s %s %s %d %d\n", o, rt, hxs(head), hx(payload), hxs(pick(r, profiles)), hxs(date), r.Intn(2), pick(r, []int{0, 0, 0, 1, 2, 3})+10*pick(r, []int{0, 0, 1}))
	}
}

// spelledDigest: the sha1 of data, correct, in a spelling the library accepts but would not write
func spelledDigest(spelling int, data []byte) string {
	switch spelling {
	case 1:
		d := refDigest("sha1", 1, data)
		return "sha1:" + strings.ToUpper(strings.TrimPrefix(d, "sha1:"))
	case 2:
		d := refDigest("sha1", 2, data)
		return "sha1:" + strings.ToLower(strings.TrimPrefix(d, "sha1:"))
	default:
		return "SHA-1:" + strings.TrimPrefix(refDigest("sha1", 2, data), "sha1:")
	}
}

func runRev(toks []string) (string, string) {
	t := &tokens{t: toks}
	o := readOpts(t)
	rt, head, payload, profile, date, viaStream := t.nextInt(), t.nextStr(), t.nextHex(), t.nextStr(), t.nextStr(), t.nextInt() == 1
	dir, err := os.MkdirTemp("", "verif-rev-")
	if err != nil {
		panic(err)
	}
	defer os.RemoveAll(dir)
	fields := [][2]string{{"WARC-Date", date}, {"Content-Type", "application/http"}, {"WARC-Target-URI", "http://example.com/x"}}
	spelling := t.nextInt()
	if spelling%10 > 0 {
		fields = append(fields, [2]string{"WARC-Payload-Digest", spelledDigest(spelling%10, payload)})
	}
	if spelling >= 10 { // the original is itself marked as truncated
		fields = append(fields, [2]string{"WARC-Truncated", "time"})
	}
	var obs, verdict string
	verdict = "OK"
	p := catch(func() {
		orig, _, errb := buildRecord(o, rt, fields, [][2]string{{"w", head}, {"rf", string(payload)}}, dir)
		if orig != nil {
			defer orig.Close()
		}
		if errb != nil {
			obs = "BUILDERR"
			return
		}
		origBlock, _ := readBlock(orig)
		origType := orig.Type()
		ref, errc := orig.CreateRevisitRef(profile)
		if errc != nil {
			obs = "REFERR"
			return
		}
		rev, errr := orig.ToRevisitRecord(ref)
		if errr != nil {
			obs = "rv:err"
			verdict = "FAIL:revisit-untruthful:ToRevisitRecord failed: " + errr.Error()
			return
		}
		revClosed := false
		defer func() {
			if !revClosed {
				rev.Close()
			}
		}()
		rb, _ := readBlock(rev)
		obs = fmt.Sprintf("rv:ok;t=%d;h=%s;b=%s;k=%s", typeNum(rev), hxs(rev.WarcHeader().String()), hxs(rb), blockKind(rev.Block()))
		h := rev.WarcHeader()
		ph := orig.Block().(gowarc.ProtocolHeaderBlock).ProtocolHeaderBytes()
		switch {
		case rb != string(ph) || rb != head:
			verdict = "FAIL:revisit-untruthful:the block of the revisit record is not the original's protocol header"
		case h.Get("Content-Length") != strconv.Itoa(len(rb)):
			verdict = "FAIL:revisit-untruthful:Content-Length " + h.Get("Content-Length") + " for a block of " + strconv.Itoa(len(rb))
		case !digestAgrees(h.Get("WARC-Block-Digest"), []byte(rb)):
			verdict = "FAIL:revisit-untruthful:WARC-Block-Digest does not match the block"
		case h.Get("WARC-Payload-Digest") != orig.WarcHeader().Get("WARC-Payload-Digest") || !digestAgrees(h.Get("WARC-Payload-Digest"), payload):
			verdict = "FAIL:revisit-untruthful:WARC-Payload-Digest is not the original's payload digest"
		case h.Get("WARC-Profile") != ref.Profile || h.GetId("WARC-Refers-To") != ref.TargetRecordId ||
			h.Get("WARC-Refers-To-Target-URI") != ref.TargetUri || h.Get("WARC-Refers-To-Date") != ref.TargetDate:
			verdict = "FAIL:revisit-untruthful:reference fields differ from the RevisitRef"
		case rev.Type().String() != h.Get("WARC-Type"):
			verdict = "FAIL:type-disagrees:revisit: Type() " + rev.Type().String() + ", WARC-Type " + h.Get("WARC-Type")
		}
		if verdict != "OK" {
			return
		}
		if ref2, e := rev.RevisitRef(); e != nil || *ref2 != *ref {
			verdict = "FAIL:revisit-untruthful:RevisitRef() of the revisit differs from the ref it was made from"
			return
		}
		// strict validation after a serialize-then-parse round trip
		wire, errm := marshalRecord(rev)
		if errm != nil {
			verdict = "FAIL:revisit-roundtrip:marshal failed"
			return
		}
		strict := o
		strict.syntax, strict.spec, strict.unknown = 2, 2, 2
		back, _, v, erru := gowarc.NewUnmarshaler(strict.options(dir, nil)...).Unmarshal(bufio.NewReader(bytes.NewReader(wire)))
		if back != nil {
			defer back.Close()
		}
		if erru != nil || !v.Valid() {
			verdict = fmt.Sprintf("FAIL:revisit-roundtrip:the serialized revisit does not pass strict validation: %v %s", erru, kinds(v))
			return
		}
		if viaStream {
			// another revisit with another protocol header is parsed before the first is looked at
			other := append([]byte{}, wire...)
			if i := bytes.Index(other, []byte("\r\n\r\n")); i > 0 {
				for j := i + 4; j < len(other)-4; j++ {
					if other[j] >= 'a' && other[j] <= 'y' {
						other[j]++
					}
				}
			}
			if d, _, _, _ := gowarc.NewUnmarshaler(gowarc.WithSyntaxErrorPolicy(gowarc.ErrIgnore), gowarc.WithSpecViolationPolicy(gowarc.ErrIgnore), gowarc.WithUnknownRecordTypePolicy(gowarc.ErrIgnore),
				gowarc.WithBlockErrorPolicy(gowarc.ErrIgnore), gowarc.WithBufferTmpDir(dir)).Unmarshal(bufio.NewReader(bytes.NewReader(other))); d != nil {
				readBlock(d)
				defer d.Close()
			}
		}
		bb, _ := readBlock(back)
		if bb != rb || back.WarcHeader().String() != h.String() {
			verdict = "FAIL:revisit-roundtrip:the parsed revisit differs from the one serialized"
			return
		}
		// merge (with the parsed revisit or with the derived one)
		toMerge := rev
		if viaStream {
			toMerge = back
			// the derived revisit has been written out and is done with: closing it must not touch the original
			rev.Close()
			revClosed = true
		}
		merged, errg := toMerge.Merge(orig)
		if errg != nil {
			obs += "|mg:err"
			verdict = "FAIL:merge-wrong:Merge failed: " + errg.Error()
			return
		}
		if toMerge.Type().String() != toMerge.WarcHeader().Get("WARC-Type") {
			verdict = fmt.Sprintf("FAIL:type-disagrees:after Merge the record it was called on has Type() %v and WARC-Type %q", toMerge.Type(), toMerge.WarcHeader().Get("WARC-Type"))
			return
		}
		mb, _ := readBlock(merged)
		obs += fmt.Sprintf("|mg:ok;t=%d;h=%s;b=%s;k=%s", typeNum(merged), hxs(merged.WarcHeader().String()), hxs(mb), blockKind(merged.Block()))
		switch {
		case mb != origBlock:
			verdict = "FAIL:merge-wrong:merged block differs from the original's block"
		case merged.WarcHeader().Get("Content-Length") != strconv.Itoa(len(mb)):
			verdict = "FAIL:merge-wrong:merged Content-Length " + merged.WarcHeader().Get("Content-Length") + " for " + strconv.Itoa(len(mb)) + " bytes"
		case merged.Type() != origType || merged.Type().String() != merged.WarcHeader().Get("WARC-Type"):
			verdict = fmt.Sprintf("FAIL:type-disagrees:merged record: Type() %v, WARC-Type %q, original %v", merged.Type(), merged.WarcHeader().Get("WARC-Type"), origType)
		}
	})
	if p != "" {
		return "PANIC", "FAIL:panic:" + p
	}
	return obs, verdict
}
