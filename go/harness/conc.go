package main

// Domains "conc" (C09, C10, C11) and "crash" (C12) on the file writer, driven through the verif
// hooks (build tag verif): seeded delays at the schedule points, snapshots at the file-system
// effect points.

import (
	"bufio"
	"bytes"
	"fmt"
	"io"
	"math/rand"
	"os"
	"path/filepath"
	"sort"
	"strings"
	"sync"
	"sync/atomic"
	"time"

	gowarc "github.com/nlnwa/gowarc/v2"
)

func init() {
	domains["conc"] = &domain{gen: genConc, run: runConc}
	domains["crash"] = &domain{gen: genCrash, run: runCrash}
}

// ---------------------------------------------------------------- conc
// case: conc <workers> <compress> <max> <info> <delayseed> <delaymode> <ngo> { <nops> {w k | r | c} }
func genConc(r *rand.Rand, n int, tier string, out *bufio.Writer) {
	for i := 0; i < n; i++ {
		workers := pick(r, []int{1, 1, 2, 3})
		max := pick(r, []int64{0, 500, 900, 2000, 1 << 30})
		ngo := 1 + r.Intn(4)
		var sb strings.Builder
		// delaymode: 0 none, 1 random short delays, 2.. : one long delay at the k-th hit of a point
		cont := 0
		if r.Intn(6) == 0 {
			cont = 1 // a marshaler that splits some records into a continuation segment
		}
		fmt.Fprintf(&sb, "conc %d %d %d %d %d %d %d %d", workers, r.Intn(2), max, r.Intn(2), r.Int63n(1<<30), r.Intn(24), cont, ngo)
		closer := r.Intn(ngo + 1) // which goroutine (if any) calls Close in its script
		for g := 0; g < ngo; g++ {
			nops := 1 + r.Intn(4)
			fmt.Fprintf(&sb, " %d", nops)
			for j := 0; j < nops; j++ {
				switch x := r.Intn(10); {
				case x < 7:
					fmt.Fprintf(&sb, " w %d", pick(r, []int{1, 1, 2, 3}))
				case x < 8:
					sb.WriteString(" r")
				default:
					if g == closer || r.Intn(4) == 0 {
						sb.WriteString(" c")
					} else {
						sb.WriteString(" w 1")
					}
				}
			}
		}
		fmt.Fprintln(out, sb.String())
	}
}

var hookPoints = []string{"write:enter", "write:before-send", "disp:got-job", "disp:exit", "worker:got-job", "worker:respond",
	"close:enter", "close:wait", "rotate:enter", "sw:write", "sw:close", "fs:create"}

type callLog struct {
	gor     int
	kind    string // "w", "r", "c"
	ids     []string
	resps   []gowarc.WriteResponse
	nilResp bool
	afterClose bool // issued after a Close of this goroutine had returned
}

func runConc(toks []string) (string, string) {
	if tooManyHangs() {
		return "SKIPPED", "-"
	}
	t := &tokens{t: toks}
	workers, compress, max, info := t.nextInt(), t.nextInt() == 1, t.nextInt64(), t.nextInt() == 1
	dseed, dmode, cont, ngo := t.nextInt64(), t.nextInt(), t.nextInt() == 1, t.nextInt()
	type op struct {
		kind string
		k    int
	}
	scripts := make([][]op, ngo)
	nrec := 0
	for g := 0; g < ngo; g++ {
		for n := t.nextInt(); n > 0; n-- {
			o := op{kind: t.next()}
			if o.kind == "w" {
				o.k = t.nextInt()
				nrec += o.k
			}
			scripts[g] = append(scripts[g], o)
		}
	}
	dir, err := os.MkdirTemp("", "verif-conc-")
	if err != nil {
		panic(err)
	}
	defer os.RemoveAll(dir)
	tmp, out := filepath.Join(dir, "tmp"), filepath.Join(dir, "out")
	os.Mkdir(tmp, 0o755)
	os.Mkdir(out, 0o755)
	// records are built before any goroutine starts (concurrent builders are exercised by domain "race")
	var recs []gowarc.WarcRecord
	bodies := map[string]string{}
	for i := 0; i < nrec; i++ {
		id := recID(i)
		body := fmt.Sprintf("payload of record %d %s", i, strings.Repeat("p", i%40))
		rb := gowarc.NewRecordBuilder(gowarc.Resource, gowarc.WithBufferTmpDir(tmp), gowarc.WithRecordIdFunc(func() (string, error) { return id, nil }))
		rb.AddWarcHeader("WARC-Date", "2021-05-06T07:08:09Z")
		rb.AddWarcHeader("Content-Type", "text/plain")
		rb.WriteString(body)
		rec, _, err := rb.Build()
		if err != nil {
			return "BUILDERR", "-"
		}
		recs = append(recs, rec)
		bodies[id] = body
	}
	defer func() {
		for _, r := range recs {
			r.Close()
		}
	}()
	gowarc.VerifSetNow(fixedNow)
	var infoCount int32
	opts := []gowarc.WarcFileWriterOption{
		gowarc.WithMaxFileSize(max), gowarc.WithCompression(compress), gowarc.WithExpectedCompressionRatio(1),
		gowarc.WithFileNameGenerator(&gowarc.PatternNameGenerator{Directory: out, Prefix: "c", Pattern: "%{prefix}s-%04{serial}d.%{ext}s", Extension: "warc"}),
		gowarc.WithMaxConcurrentWriters(workers),
		gowarc.WithRecordOptions(gowarc.WithBufferTmpDir(tmp), gowarc.WithRecordIdFunc(func() (string, error) {
			return infoID(int(atomic.AddInt32(&infoCount, 1))), nil
		})),
	}
	if info {
		opts = append(opts, gowarc.WithWarcInfoFunc(func(rb gowarc.WarcRecordBuilder) error {
			_, err := rb.WriteString("software: verif\r\n")
			return err
		}))
	}
	if cont {
		// every third record is followed by a continuation segment returned by the marshaler
		var contRecs []gowarc.WarcRecord
		for i := 0; i < nrec; i += 3 {
			id := fmt.Sprintf("urn:uuid:cccccccc-0000-0000-0000-%012d", i)
			rb := gowarc.NewRecordBuilder(gowarc.Continuation, gowarc.WithBufferTmpDir(tmp), gowarc.WithRecordIdFunc(func() (string, error) { return id, nil }))
			rb.AddWarcHeader("WARC-Date", "2021-05-06T07:08:09Z")
			rb.AddWarcHeader("WARC-Segment-Number", "2")
			rb.AddWarcHeader("WARC-Segment-Origin-ID", "<"+recID(i)+">")
			rb.AddWarcHeader("Content-Type", "text/plain")
			rb.WriteString("continued")
			cr, _, err := rb.Build()
			if err != nil {
				return "BUILDERR", "-"
			}
			contRecs = append(contRecs, cr)
			defer cr.Close()
		}
		opts = append(opts, gowarc.WithMarshaler(&splitMarshaler{inner: gowarc.NewMarshaler(), conts: contRecs, recs: recs}))
	}
	// the schedule: delays at the hook points
	var hmu sync.Mutex
	hrand := rand.New(rand.NewSource(dseed))
	hits := map[string]int{}
	target, targetHit := "", 0
	if dmode >= 2 {
		target = hookPoints[(dmode-2)%len(hookPoints)]
		targetHit = int(dseed % 3)
	}
	gowarc.VerifHook = func(p string) {
		if strings.HasPrefix(p, "fs:write") {
			return
		}
		hmu.Lock()
		d := time.Duration(0)
		switch {
		case dmode == 1:
			if hrand.Intn(3) == 0 {
				d = time.Duration(hrand.Intn(400)) * time.Microsecond
			}
		case dmode >= 2 && p == target:
			if hits[p] == targetHit {
				d = 3 * time.Millisecond
			}
			hits[p]++
		}
		hmu.Unlock()
		if d > 0 {
			time.Sleep(d)
		} else if dmode == 1 {
			// yield
			time.Sleep(0)
		}
	}
	defer func() { gowarc.VerifHook = nil }()

	w := gowarc.NewWarcFileWriter(opts...)
	var lmu sync.Mutex
	var calls []*callLog
	// the history of the run: "+g" a call of goroutine g starts, "-g:r" it has returned (r: n = no
	// responses, k = k responses, - = Rotate/Close); the model decides whether it is one of its runs
	var hist []string
	var closeReturned int32
	openAtClose := ""
	next := int32(0)
	var wg sync.WaitGroup
	for g := 0; g < ngo; g++ {
		wg.Add(1)
		go func(g int) {
			defer wg.Done()
			closedHere := false
			for _, o := range scripts[g] {
				cl := &callLog{gor: g, kind: o.kind, afterClose: closedHere}
				lmu.Lock()
				hist = append(hist, fmt.Sprintf("+%d", g))
				lmu.Unlock()
				res := "-"
				switch o.kind {
				case "w":
					var batch []gowarc.WarcRecord
					for x := 0; x < o.k; x++ {
						i := int(atomic.AddInt32(&next, 1)) - 1
						batch = append(batch, recs[i])
						cl.ids = append(cl.ids, recID(i))
					}
					resps := w.Write(batch...)
					cl.nilResp = resps == nil
					cl.resps = resps
					if resps == nil {
						res = "n"
					} else {
						res = fmt.Sprint(len(resps))
					}
				case "r":
					w.Rotate()
				case "c":
					w.Close()
					atomic.StoreInt32(&closeReturned, 1)
					closedHere = true
					// C10: when Close has returned every worker's file is closed under its final name
					ents, _ := os.ReadDir(out)
					for _, e := range ents {
						if strings.HasSuffix(e.Name(), ".open") {
							lmu.Lock()
							openAtClose = e.Name()
							lmu.Unlock()
						}
					}
				}
				lmu.Lock()
				calls = append(calls, cl)
				hist = append(hist, fmt.Sprintf("-%d:%s", g, res))
				lmu.Unlock()
			}
		}(g)
	}
	done := make(chan struct{})
	go func() { wg.Wait(); close(done) }()
	select {
	case <-done:
	case <-timeAfter(10):
		noteHang()
		return "TIMEOUT", "FAIL:deadlock:a call to Write, Rotate or Close did not return within 10s"
	}
	// the files are inspected as the scripted calls left them: when one of them was a Close that
	// returned, no further Close is issued (a single Close must finalise everything)
	closeDone := make(chan struct{})
	go func() {
		if atomic.LoadInt32(&closeReturned) == 0 {
			w.Close()
		}
		close(closeDone)
	}()
	select {
	case <-closeDone:
	case <-timeAfter(10):
		noteHang()
		return "TIMEOUT", "FAIL:deadlock:the final Close did not return within 10s"
	}
	late := make(chan []gowarc.WriteResponse, 1)
	if len(recs) == 0 {
		late <- nil
	} else {
		go func() { late <- w.Write(recs[0]) }()
	}
	select {
	case r := <-late:
		if r != nil {
			return "late-write", "FAIL:write-after-close:Write after Close returned responses"
		}
	case <-timeAfter(5):
		noteHang()
		return "TIMEOUT", "FAIL:deadlock:Write after Close blocks"
	}
	// failures of different sentences can coincide (a file left in progress also means that the
	// records acknowledged for it are not at the reported file): all kinds are reported, "a+b"
	var extraKinds []string
	extraDetail := ""
	if openAtClose != "" {
		extraKinds = append(extraKinds, "close-early")
		extraDetail = "Close returned while " + openAtClose + " still carried the in-progress suffix; "
	}
	// ---- read everything back ----
	ents, _ := os.ReadDir(out)
	var names []string
	for _, e := range ents {
		names = append(names, e.Name())
	}
	sort.Strings(names)
	type place struct {
		file string
		off  int64
		idx  int
	}
	where := map[string][]place{}
	total := 0
	for _, nme := range names {
		if strings.HasSuffix(nme, ".open") {
			if len(extraKinds) == 0 {
				extraKinds = append(extraKinds, "close-early")
			}
			extraDetail += nme + " left in progress after Close; "
			continue
		}
		rd, err := gowarc.NewWarcFileReader(filepath.Join(out, nme), 0, gowarc.WithStrictValidation(), gowarc.WithBufferTmpDir(tmp))
		if err != nil {
			return "unreadable", "FAIL:torn-file:" + err.Error()
		}
		idx := 0
		for {
			rec, off, v, err := rd.Next()
			if err != nil {
				if classify(err) != "eoh" {
					rd.Close()
					return "unreadable", fmt.Sprintf("FAIL:torn-file:%s is not a sequence of whole records: %v at %d", nme, err, off)
				}
				break
			}
			if !v.Valid() {
				rd.Close()
				return "unreadable", fmt.Sprintf("FAIL:torn-file:%s: findings at %d: %s", nme, off, kinds(v))
			}
			id := rec.RecordId()
			blk, _ := readBlock(rec)
			if b, ok := bodies[id]; ok && b != blk {
				rd.Close()
				return "corrupt", "FAIL:torn-file:record " + id + " has a different block in " + nme
			}
			if rec.Type() == gowarc.Continuation {
				// a continuation segment belongs to the record before it
				rec.Close()
				continue
			}
			if rec.Type() != gowarc.Warcinfo {
				where[id] = append(where[id], place{nme, off, idx})
				total++
			}
			idx++
			rec.Close()
		}
		rd.Close()
	}
	mk := func(kind, detail string) string {
		return "FAIL:" + strings.Join(append(append([]string{}, extraKinds...), kind), "+") + ":" + extraDetail + detail
	}
	obs := fmt.Sprintf("files=%d;records=%d;calls=%d;hist=%s", len(names), total, len(calls), strings.Join(hist, ","))
	for _, cl := range calls {
		if cl.kind != "w" {
			continue
		}
		if cl.nilResp {
			for _, id := range cl.ids {
				if len(where[id]) > 0 {
					return obs, mk("nil-but-written", "Write returned no responses but record "+id+" was written to "+where[id][0].file)
				}
			}
			continue
		}
		if len(cl.resps) != len(cl.ids) {
			return obs, mk("lost-or-duplicated", fmt.Sprintf("%d responses for %d records", len(cl.resps), len(cl.ids)))
		}
		var places []place
		for x, rs := range cl.resps {
			if rs.Err != nil {
				continue
			}
			ps := where[cl.ids[x]]
			if len(ps) != 1 {
				return obs, mk("lost-or-duplicated", fmt.Sprintf("record %s is present %d times", cl.ids[x], len(ps)))
			}
			if ps[0].file != rs.FileName || ps[0].off != rs.FileOffset {
				return obs, mk("misplaced", fmt.Sprintf("record %s reported at %s@%d is at %s@%d", cl.ids[x], rs.FileName, rs.FileOffset, ps[0].file, ps[0].off))
			}
			places = append(places, ps[0])
		}
		for x := 1; x < len(places); x++ {
			if places[x].file != places[x-1].file {
				return obs, mk("batch-split-across-files", fmt.Sprintf("the records of one Write call are in %s and %s", places[x-1].file, places[x].file))
			}
			if places[x].idx != places[x-1].idx+1 {
				return obs, mk("batch-not-contiguous", "the records of one Write call are not adjacent in "+places[x].file)
			}
		}
	}
	if len(extraKinds) > 0 {
		return obs, "FAIL:" + strings.Join(extraKinds, "+") + ":" + extraDetail
	}
	return obs, "OK"
}

// splitMarshaler returns a continuation record for every third record (once).
type splitMarshaler struct {
	inner gowarc.Marshaler
	recs  []gowarc.WarcRecord
	conts []gowarc.WarcRecord
	mu    sync.Mutex
	done  map[int]bool
	// the largest size limit the writer passed along with a warcinfo record (0: never to be segmented)
	warcinfoMax int64
}

func (m *splitMarshaler) Marshal(w io.Writer, record gowarc.WarcRecord, maxSize int64) (gowarc.WarcRecord, int64, error) {
	if record.Type() == gowarc.Warcinfo && maxSize > 0 {
		m.mu.Lock()
		if maxSize > m.warcinfoMax {
			m.warcinfoMax = maxSize
		}
		m.mu.Unlock()
	}
	_, n, err := m.inner.Marshal(w, record, maxSize)
	if err != nil {
		return nil, n, err
	}
	m.mu.Lock()
	defer m.mu.Unlock()
	if m.done == nil {
		m.done = map[int]bool{}
	}
	for i := 0; i < len(m.recs); i += 3 {
		if m.recs[i] == record && !m.done[i] {
			m.done[i] = true
			return m.conts[i/3], n, nil
		}
	}
	return nil, n, nil
}

// ---------------------------------------------------------------- crash
func genCrash(r *rand.Rand, n int, tier string, out *bufio.Writer) {
	var b bytes.Buffer
	bw := bufio.NewWriter(&b)
	genWriter(r, n, tier, bw)
	bw.Flush()
	for _, l := range strings.Split(strings.TrimSpace(b.String()), "\n") {
		// scenario: 0 plain, 1 a leftover in-progress file of a killed earlier process has the first
		// name, 2 another goroutine calls Rotate while a record is half written
		// 3 a marshaler that hands back a continuation segment for every third record
		// 4 a second file writer is handed the name of the file that is still in progress
		fmt.Fprintf(out, "crash %d %d%s\n", pick(r, []int{0, 0, 1, 2, 2, 3, 3, 4}), r.Intn(6), strings.TrimPrefix(l, "writer"))
	}
}

type snapshot struct {
	point string
	files map[string][]byte
	acked int
}

func runCrash(toks []string) (string, string) {
	t := &tokens{t: toks}
	scen, scenK := t.nextInt(), t.nextInt()
	max := t.nextInt64()
	compress, ratioS, info, flush := t.nextInt() == 1, t.next(), t.nextInt() == 1, t.nextInt() == 1
	var ratio float64
	fmt.Sscanf(ratioS, "%g", &ratio)
	dup := t.nextInt() == 1
	nrec := t.nextInt()
	if dup {
		return "n/a", "OK"
	}
	dir, err := os.MkdirTemp("", "verif-crash-")
	if err != nil {
		panic(err)
	}
	defer os.RemoveAll(dir)
	tmp, out := filepath.Join(dir, "tmp"), filepath.Join(dir, "out")
	os.Mkdir(tmp, 0o755)
	os.Mkdir(out, 0o755)
	var recs []gowarc.WarcRecord
	for i := 0; i < nrec; i++ {
		body := t.nextHex()
		id := recID(i)
		rb := gowarc.NewRecordBuilder(gowarc.Resource, gowarc.WithBufferTmpDir(tmp), gowarc.WithRecordIdFunc(func() (string, error) { return id, nil }))
		rb.AddWarcHeader("WARC-Date", "2021-05-06T07:08:09Z")
		rb.AddWarcHeader("Content-Type", "application/octet-stream")
		rb.AddWarcHeader("WARC-Target-URI", "http://example.com/"+fmt.Sprint(i))
		rb.Write(body)
		rec, _, err := rb.Build()
		if err != nil {
			return "BUILDERR", "-"
		}
		recs = append(recs, rec)
	}
	defer func() {
		for _, r := range recs {
			r.Close()
		}
	}()
	gowarc.VerifSetNow(fixedNow)
	infoCount := 0
	opts := []gowarc.WarcFileWriterOption{
		gowarc.WithMaxFileSize(max), gowarc.WithCompression(compress), gowarc.WithExpectedCompressionRatio(ratio),
		gowarc.WithFileNameGenerator(&gowarc.PatternNameGenerator{Directory: out, Prefix: "v", Pattern: "%{prefix}s-%04{serial}d.%{ext}s", Extension: "warc"}),
		gowarc.WithMaxConcurrentWriters(1), gowarc.WithFlush(flush),
		gowarc.WithRecordOptions(gowarc.WithBufferTmpDir(tmp), gowarc.WithRecordIdFunc(func() (string, error) {
			infoCount++
			return infoID(infoCount), nil
		})),
	}
	if info {
		opts = append(opts, gowarc.WithWarcInfoFunc(func(rb gowarc.WarcRecordBuilder) error {
			_, err := rb.WriteString("software: verif\r\n")
			return err
		}))
	}
	if scen == 3 {
		var contRecs []gowarc.WarcRecord
		for i := 0; i < nrec; i += 3 {
			id := fmt.Sprintf("urn:uuid:cccccccc-0000-0000-0000-%012d", i)
			rb := gowarc.NewRecordBuilder(gowarc.Continuation, gowarc.WithBufferTmpDir(tmp), gowarc.WithRecordIdFunc(func() (string, error) { return id, nil }))
			rb.AddWarcHeader("WARC-Date", "2021-05-06T07:08:09Z")
			rb.AddWarcHeader("WARC-Segment-Number", "2")
			rb.AddWarcHeader("WARC-Segment-Origin-ID", "<"+recID(i)+">")
			rb.AddWarcHeader("Content-Type", "text/plain")
			rb.WriteString("continued")
			cr, _, err := rb.Build()
			if err != nil {
				return "BUILDERR", "-"
			}
			contRecs = append(contRecs, cr)
			defer cr.Close()
		}
		opts = append(opts, gowarc.WithMarshaler(&splitMarshaler{inner: gowarc.NewMarshaler(), conts: contRecs, recs: recs}))
	}
	if scen == 4 {
		// one name for every file, no rotation: the second writer's file collides with the first one's
		opts = append(opts, gowarc.WithMaxFileSize(0),
			gowarc.WithFileNameGenerator(&gowarc.PatternNameGenerator{Directory: out, Prefix: "v", Pattern: "%{prefix}s-0001.%{ext}s", Extension: "warc"}))
	}
	leftover := ""
	var leftoverContent []byte
	if scen == 1 {
		leftover = "v-0001.warc"
		if compress {
			leftover += ".gz"
		}
		leftover += ".open"
		whole := serializeRecord("1.1", [][2]string{{"WARC-Type", "resource"}, {"WARC-Record-ID", "<urn:uuid:eeeeeeee-0000-0000-0000-000000000000>"},
			{"WARC-Date", "2021-05-06T07:08:09Z"}, {"Content-Type", "text/plain"}, {"Content-Length", "3"}}, []byte("old"), "\r\n")
		leftoverContent = append(append([]byte{}, whole...), whole[:len(whole)/2]...)
		if compress {
			leftoverContent = append(gzipMember(whole), gzipMember(whole)[:20]...)
		}
		os.WriteFile(filepath.Join(out, leftover), leftoverContent, 0o644)
	}
	var snaps []snapshot
	var trace []string
	acked := 0
	var wref *gowarc.WarcFileWriter
	mids := 0
	rotDone := make(chan struct{}, 8)
	takeSnap := func(p string) {
		s := snapshot{point: p, files: map[string][]byte{}, acked: acked}
		ents, _ := os.ReadDir(out)
		for _, e := range ents {
			b, _ := os.ReadFile(filepath.Join(out, e.Name()))
			s.files[e.Name()] = b
		}
		snaps = append(snaps, s)
	}
	gowarc.VerifHook = func(p string) {
		if !strings.HasPrefix(p, "fs:") {
			return
		}
		if !strings.HasPrefix(p, "fs:write") {
			trace = append(trace, strings.TrimPrefix(p, "fs:"))
		}
		if scen == 2 && p == "fs:write-mid" {
			if mids == scenK && wref != nil {
				// Rotate from another goroutine while this record is half written; it must wait
				go func() { wref.Rotate(); rotDone <- struct{}{} }()
				select {
				case <-rotDone:
					rotDone <- struct{}{}
				case <-time.After(30 * time.Millisecond):
				}
			}
			mids++
		}
		takeSnap(p) // the state a kill at this instant leaves behind
	}
	defer func() { gowarc.VerifHook = nil }()
	w := gowarc.NewWarcFileWriter(opts...)
	wref = w
	type ack struct {
		resp gowarc.WriteResponse
		at   int    // number of acks before this one
		id   string // WARC-Record-ID of the record this acknowledges
	}
	var acks []ack
	var w2 *gowarc.WarcFileWriter
	collided := false
	nops := t.nextInt()
	for i := 0; i < nops; i++ {
		if t.next() == "r" {
			if scen != 4 {
				w.Rotate()
			}
			continue
		}
		k := t.nextInt()
		var batch []gowarc.WarcRecord
		for x := 0; x < k; x++ {
			batch = append(batch, recs[t.nextInt()])
		}
		for bi, rs := range w.Write(batch...) {
			if rs.Err == nil {
				acks = append(acks, ack{rs, acked, batch[bi].WarcHeader().Get("WARC-Record-ID")})
				acked++
			}
		}
		if scen == 4 && w2 == nil && acked > 0 {
			// the first writer's file is in progress and holds acknowledged records: a second writer
			// that is given the same name must leave it alone (its own Write fails)
			w2 = gowarc.NewWarcFileWriter(opts...)
			for _, rs := range w2.Write(recs[0]) {
				if rs.Err == nil {
					collided = true
				}
			}
			takeSnap("after-collision")
		}
	}
	if w2 != nil {
		w2.Close()
	}
	if collided {
		return "collision", "FAIL:crash-unsafe:a second writer was allowed to write to the in-progress file of the first"
	}
	if scen == 2 && mids > scenK {
		select {
		case <-rotDone:
		case <-time.After(2 * time.Second):
		}
	}
	w.Close()
	takeSnap("end")
	final := snaps[len(snaps)-1].files
	if leftover != "" {
		// the leftover of the killed process must never be written to
		for si, s := range snaps {
			if !bytes.Equal(s.files[leftover], leftoverContent) {
				return fmt.Sprintf("snap=%d", si), "FAIL:crash-unsafe:the in-progress file left by an earlier process was written to"
			}
			delete(s.files, leftover)
		}
	}
	// the final state: every file is final-named and a complete WARC file
	for nme, content := range final {
		if strings.HasSuffix(nme, ".open") {
			return "open-left", "FAIL:crash-unsafe:" + nme + " still in progress after Close"
		}
		rd, err := gowarc.NewWarcFileReaderFromStream(bytes.NewReader(content), 0, gowarc.WithStrictValidation(), gowarc.WithBufferTmpDir(tmp))
		if err != nil {
			return "unreadable", "FAIL:crash-unsafe:" + err.Error()
		}
		for {
			rec, _, v, err := rd.Next()
			if err != nil {
				if classify(err) != "eoh" {
					rd.Close()
					return "unreadable", "FAIL:crash-unsafe:final file " + nme + " is not well-formed: " + err.Error()
				}
				break
			}
			if !v.Valid() {
				rd.Close()
				return "unreadable", "FAIL:crash-unsafe:final file " + nme + " has findings " + kinds(v)
			}
			rec.Close()
		}
		rd.Close()
	}
	// the reported place holds the record that was acknowledged, not some other record
	for _, a := range acks {
		if got := recordIDAt(final[a.resp.FileName], a.resp.FileOffset); got != a.id {
			return "wrong-record", fmt.Sprintf("FAIL:crash-unsafe:the record acknowledged at %s@%d is %s there, %s was written", a.resp.FileName, a.resp.FileOffset, got, a.id)
		}
	}
	// record lengths in the final files (for "fully present")
	for si, s := range snaps {
		for nme, content := range s.files {
			base := strings.TrimSuffix(nme, ".open")
			fin, ok := final[base]
			if !ok {
				return fmt.Sprintf("snap=%d", si), "FAIL:crash-unsafe:file " + nme + " seen at " + s.point + " does not exist in the end"
			}
			if strings.HasSuffix(nme, ".open") {
				// whole records followed by at most one partial record = a prefix of what the file becomes
				if !bytes.HasPrefix(fin, content) {
					return fmt.Sprintf("snap=%d", si), fmt.Sprintf("FAIL:crash-unsafe:at %s the in-progress file %s is not a prefix of its final content", s.point, nme)
				}
			} else if !bytes.Equal(fin, content) {
				return fmt.Sprintf("snap=%d", si), fmt.Sprintf("FAIL:crash-unsafe:at %s the file %s carries its final name but is incomplete or written to again later (%d of %d bytes)", s.point, nme, len(content), len(fin))
			}
		}
		for _, a := range acks {
			if a.at >= s.acked {
				continue
			}
			content, ok := s.files[a.resp.FileName]
			if !ok {
				content, ok = s.files[a.resp.FileName+".open"]
			}
			fin := final[a.resp.FileName]
			// the record ends where the next one starts in the final file
			end := recordEnd(fin, a.resp.FileOffset, compress)
			if !ok || int64(len(content)) < end || !bytes.Equal(content[a.resp.FileOffset:end], fin[a.resp.FileOffset:end]) {
				return fmt.Sprintf("snap=%d", si), fmt.Sprintf("FAIL:crash-unsafe:at %s the acknowledged record at %s@%d is not fully present", s.point, a.resp.FileName, a.resp.FileOffset)
			}
		}
	}
	return fmt.Sprintf("snaps=%d;trace=%s", len(snaps), strings.Join(trace, ",")), "OK"
}

// recordIDAt: WARC-Record-ID of the record that starts at off ("" when there is none)
func recordIDAt(file []byte, off int64) string {
	if off < 0 || off > int64(len(file)) {
		return ""
	}
	rd, err := gowarc.NewWarcFileReaderFromStream(bytes.NewReader(file), off)
	if err != nil {
		return ""
	}
	defer rd.Close()
	rec, _, _, err := rd.Next()
	if err != nil || rec == nil {
		return ""
	}
	defer rec.Close()
	return rec.WarcHeader().Get("WARC-Record-ID")
}

// recordEnd: where the record that starts at off ends (next record start or end of file)
func recordEnd(file []byte, off int64, compress bool) int64 {
	rd, err := gowarc.NewWarcFileReaderFromStream(bytes.NewReader(file), off)
	if err != nil {
		return int64(len(file))
	}
	defer rd.Close()
	if rec, _, _, err := rd.Next(); err == nil && rec != nil {
		rec.Close()
	}
	rec, next, _, err := rd.Next()
	if rec != nil {
		rec.Close()
	}
	if err != nil && classify(err) != "eoh" {
		return int64(len(file))
	}
	return next
}
