package main

// Shared record-level helpers: option encoding, error/finding classification, observation of
// records, gzip item streams.  Used by the domains build / unm / rt (C01-C08, C20).

import (
	"bytes"
	"errors"
	"fmt"
	"io"
	"math/rand"
	"strings"

	kgzip "github.com/klauspost/compress/gzip"
	gowarc "github.com/nlnwa/gowarc/v2"
)

type ropts struct {
	syntax, spec, unknown, block int
	skip                         int
	addID, addCL, addDig         int
	fixCL, fixDig, fixSyn, fixWF int
	alg                          string
	enc                          int
	vid                          int // 1 = WARC 1.0, 2 = WARC 1.1
	thr                          int // spill threshold (bytes in memory)
}

func (o ropts) String() string {
	return fmt.Sprintf("%d %d %d %d %d %d %d %d %d %d %d %d %s %d %d %d", o.syntax, o.spec, o.unknown, o.block, o.skip,
		o.addID, o.addCL, o.addDig, o.fixCL, o.fixDig, o.fixSyn, o.fixWF, o.alg, o.enc, o.vid, o.thr)
}

func readOpts(t *tokens) ropts {
	var o ropts
	o.syntax, o.spec, o.unknown, o.block, o.skip = t.nextInt(), t.nextInt(), t.nextInt(), t.nextInt(), t.nextInt()
	o.addID, o.addCL, o.addDig = t.nextInt(), t.nextInt(), t.nextInt()
	o.fixCL, o.fixDig, o.fixSyn, o.fixWF = t.nextInt(), t.nextInt(), t.nextInt(), t.nextInt()
	o.alg = t.next()
	o.enc, o.vid, o.thr = t.nextInt(), t.nextInt(), t.nextInt()
	return o
}

func genOpts(r *rand.Rand) ropts {
	o := ropts{syntax: r.Intn(3), spec: r.Intn(3), unknown: r.Intn(3), block: r.Intn(3),
		addID: 1, addCL: 1, addDig: 1, fixCL: 1, fixDig: 1, fixSyn: 1,
		alg: pick(r, algs), enc: 1 + r.Intn(3), vid: 1 + r.Intn(2), thr: pick(r, []int{1, 2, 7, 40, 64, 1 << 16})}
	if r.Intn(8) == 0 {
		o.skip = 1
	}
	if r.Intn(4) == 0 { // repairs / additions off in some combination
		o.addID, o.addCL, o.addDig = r.Intn(2), r.Intn(2), r.Intn(2)
		o.fixCL, o.fixDig, o.fixSyn, o.fixWF = r.Intn(2), r.Intn(2), r.Intn(2), r.Intn(2)
	}
	return o
}

var policies = []gowarc.WarcRecordOption{}

func polOpt(i int) int { return i }

func (o ropts) options(tmp string, idf func() (string, error)) []gowarc.WarcRecordOption {
	ver := gowarc.V1_1
	if o.vid == 1 {
		ver = gowarc.V1_0
	}
	opts := []gowarc.WarcRecordOption{
		gowarc.WithVersion(ver),
		gowarc.VerifPolicies(o.syntax, o.spec, o.unknown, o.block),
		gowarc.WithAddMissingRecordId(o.addID == 1), gowarc.WithAddMissingContentLength(o.addCL == 1),
		gowarc.WithAddMissingDigest(o.addDig == 1), gowarc.WithFixContentLength(o.fixCL == 1),
		gowarc.WithFixDigest(o.fixDig == 1), gowarc.WithFixSyntaxErrors(o.fixSyn == 1),
		gowarc.WithFixWarcFieldsBlockErrors(o.fixWF == 1),
		gowarc.WithDefaultDigestAlgorithm(o.alg), gowarc.VerifDigestEncoding(o.enc),
		gowarc.WithBufferMaxMemBytes(int64(o.thr)), gowarc.WithBufferTmpDir(tmp),
	}
	if o.skip == 1 {
		opts = append(opts, gowarc.VerifSkipParseBlock())
	}
	if idf != nil {
		opts = append(opts, gowarc.WithRecordIdFunc(idf))
	}
	return opts
}

// classify maps an error or finding of gowarc to the coarse kind the model uses.
func classify(e error) string {
	if e == nil {
		return "nil"
	}
	if e == io.EOF {
		return "eoh"
	}
	m := e.Error()
	if strings.Contains(m, "error in http") || strings.Contains(m, "error in warc fields block") {
		return "blk"
	}
	if errors.Is(e, errInjected) || errors.Is(e, io.ErrUnexpectedEOF) {
		return "read"
	}
	switch {
	case strings.Contains(m, "missing required field WARC-Type"):
		return "mt"
	case strings.Contains(m, "unrecognized value"):
		return "ut"
	case strings.Contains(m, "illegal field"):
		return "il"
	case strings.Contains(m, "field occurs more than once"):
		return "dup"
	case strings.Contains(m, "missing required field: Content-Type"):
		return "ct"
	case strings.Contains(m, "missing required field: "):
		return "mr"
	case strings.Contains(m, "not allowed for record type"):
		return "na"
	case strings.Contains(m, "content length mismatch"):
		return "len"
	case strings.HasPrefix(m, "block: ") || strings.HasPrefix(m, "payload: "):
		return "dig"
	case strings.Contains(m, "end of record") || strings.Contains(m, "end of record marker"):
		return "trl"
	case strings.Contains(m, "unsupported WARC version"):
		return "ver"
	case strings.Contains(m, "record was found"):
		return "off"
	case strings.Contains(m, "error in http") || strings.Contains(m, "error in warc fields block"):
		return "blk"
	case strings.Contains(m, "missing End of WARC-Fields marker"):
		return "mrk"
	case strings.Contains(m, "missing line separator at end of http headers"):
		return "syn"
	}
	if c := gowarc.VerifErrClass(e); c == "syn" || c == "eoh" {
		return c
	}
	if _, ok := e.(*gowarc.HeaderFieldError); ok {
		return "val"
	}
	if strings.Contains(m, "gowarc: ") && strings.Contains(m, " at header ") {
		return "val"
	}
	return "other"
}

func kinds(v *gowarc.Validation) string {
	if v == nil {
		return ""
	}
	var ks []string
	for _, e := range *v {
		ks = append(ks, classify(e))
	}
	return strings.Join(ks, ",")
}

func blockKind(b gowarc.Block) string {
	switch b.(type) {
	case gowarc.HttpRequestBlock:
		return "q"
	case gowarc.HttpResponseBlock:
		return "s"
	case gowarc.WarcFieldsBlock:
		return "w"
	}
	if _, ok := b.(gowarc.ProtocolHeaderBlock); ok {
		return "v"
	}
	return "g"
}

// readBlock drains RawBytes once.
func readBlock(r gowarc.WarcRecord) (string, error) {
	if r.Block() == nil {
		return "", errors.New("nil block")
	}
	rd, err := r.Block().RawBytes()
	if err != nil {
		return "", err
	}
	b, err := io.ReadAll(rd)
	return string(b), err
}

func typeNum(r gowarc.WarcRecord) int { return int(r.Type()) }

// showRecord is the canonical observation of a cleanly returned record.
func showRecord(r gowarc.WarcRecord, v *gowarc.Validation) string {
	blk, err := readBlock(r)
	b := hxs(blk)
	if err != nil {
		b = "ERR"
	}
	return fmt.Sprintf("v=%s;t=%d;f=%s;h=%s;b=%s;k=%s", hxs(strings.TrimPrefix(r.Version().String(), "WARC/")), typeNum(r), kinds(v),
		hxs(r.WarcHeader().String()), b, blockKind(r.Block()))
}

// ---- gzip item streams ----
type gitem struct {
	kind    string // "j" junk, "m" member
	data    []byte // junk bytes or full payload
	cut     int    // -1: whole member; otherwise number of compressed bytes kept
	prefix  []byte // decodable prefix of a cut member
	csize   int    // size of the (possibly cut) compressed member
}

func gzipMember(payload []byte) []byte {
	var b bytes.Buffer
	w, _ := kgzip.NewWriterLevel(&b, 5)
	w.Write(payload)
	w.Close()
	return b.Bytes()
}

// decodablePrefix: what a gzip reader delivers from a truncated member before it fails
// (computed with the gzip library itself, not with gowarc); ok=false: the header is incomplete.
func decodablePrefix(cutBytes []byte) (prefix []byte, ok bool) {
	zr, err := kgzip.NewReader(bytes.NewReader(cutBytes))
	if err != nil {
		return nil, false
	}
	zr.Multistream(false)
	var out bytes.Buffer
	buf := make([]byte, 1)
	for {
		n, err := zr.Read(buf)
		out.Write(buf[:n])
		if err != nil {
			break
		}
	}
	return out.Bytes(), true
}

func materialize(items []gitem) []byte {
	var b bytes.Buffer
	for _, it := range items {
		switch it.kind {
		case "j":
			b.Write(it.data)
		case "m":
			z := gzipMember(it.data)
			if it.cut >= 0 && it.cut < len(z) {
				z = z[:it.cut]
			}
			b.Write(z)
		}
	}
	return b.Bytes()
}
