// Command gen regenerates Coq data files from /repo's current source (tie T-A).
//
//	gen fieldtable <repo> <out.v>
//
// It reads headerfielddef.go / record.go with go/parser and evaluates the
// constant expressions of the fieldDefs table.
package main

import (
	"fmt"
	"go/ast"
	"go/parser"
	"go/token"
	"os"
	"path/filepath"
	"strconv"
	"strings"
)

func die(f string, a ...any) { fmt.Fprintf(os.Stderr, "gen: "+f+"\n", a...); os.Exit(2) }

type env struct {
	strs  map[string]string   // string constants
	ints  map[string]int64    // integer constants (record types), version ids as "V1_0.id"
	exprs map[string]ast.Expr // named constants / variables defined by an expression, evaluated on demand
}

func loadEnv(repo string) (*env, map[string]*ast.File, *token.FileSet) {
	fset := token.NewFileSet()
	files := map[string]*ast.File{}
	e := &env{strs: map[string]string{}, ints: map[string]int64{}, exprs: map[string]ast.Expr{}}
	matches, _ := filepath.Glob(filepath.Join(repo, "*.go"))
	for _, m := range matches {
		if strings.HasSuffix(m, "_test.go") || strings.HasPrefix(filepath.Base(m), "zz_verif") {
			continue
		}
		f, err := parser.ParseFile(fset, m, nil, 0)
		if err != nil {
			die("parse %s: %v", m, err)
		}
		files[filepath.Base(m)] = f
		for _, d := range f.Decls {
			gd, ok := d.(*ast.GenDecl)
			if !ok {
				continue
			}
			for _, sp := range gd.Specs {
				vs, ok := sp.(*ast.ValueSpec)
				if !ok {
					continue
				}
				for i, n := range vs.Names {
					if i >= len(vs.Values) {
						continue
					}
					switch v := vs.Values[i].(type) {
					case *ast.BasicLit:
						if v.Kind == token.STRING {
							s, _ := strconv.Unquote(v.Value)
							e.strs[n.Name] = s
						} else if v.Kind == token.INT {
							x, _ := strconv.ParseInt(v.Value, 0, 64)
							e.ints[n.Name] = x
						}
					case *ast.BinaryExpr, *ast.ParenExpr, *ast.Ident, *ast.SelectorExpr:
						e.exprs[n.Name] = vs.Values[i]
					case *ast.UnaryExpr: // V1_0 = &WarcVersion{id: 1, ...}
						if cl, ok := v.X.(*ast.CompositeLit); ok {
							for _, el := range cl.Elts {
								if kv, ok := el.(*ast.KeyValueExpr); ok {
									if k, ok := kv.Key.(*ast.Ident); ok && k.Name == "id" {
										if bl, ok := kv.Value.(*ast.BasicLit); ok {
											x, _ := strconv.ParseInt(bl.Value, 0, 64)
											e.ints[n.Name+".id"] = x
										}
									}
								}
							}
						}
					}
				}
			}
		}
	}
	return e, files, fset
}

func (e *env) evalInt(x ast.Expr) int64 {
	switch v := x.(type) {
	case *ast.BasicLit:
		n, err := strconv.ParseInt(v.Value, 0, 64)
		if err != nil {
			die("int literal %s", v.Value)
		}
		return n
	case *ast.Ident:
		n, ok := e.ints[v.Name]
		if !ok {
			if x, ok2 := e.exprs[v.Name]; ok2 {
				delete(e.exprs, v.Name) // no cycles
				n = e.evalInt(x)
				e.ints[v.Name] = n
				return n
			}
			die("unknown int constant %s", v.Name)
		}
		return n
	case *ast.SelectorExpr:
		if id, ok := v.X.(*ast.Ident); ok {
			n, ok := e.ints[id.Name+"."+v.Sel.Name]
			if !ok {
				die("unknown selector %s.%s", id.Name, v.Sel.Name)
			}
			return n
		}
	case *ast.BinaryExpr:
		a, b := e.evalInt(v.X), e.evalInt(v.Y)
		switch v.Op {
		case token.OR:
			return a | b
		case token.AND:
			return a & b
		case token.ADD:
			return a + b
		case token.SUB:
			return a - b
		case token.AND_NOT:
			return a &^ b
		case token.XOR:
			return a ^ b
		case token.SHL:
			return a << uint(b)
		}
	case *ast.ParenExpr:
		return e.evalInt(v.X)
	}
	die("cannot evaluate int expression %T", x)
	return 0
}

func (e *env) evalStr(x ast.Expr) string {
	switch v := x.(type) {
	case *ast.BasicLit:
		s, _ := strconv.Unquote(v.Value)
		return s
	case *ast.Ident:
		s, ok := e.strs[v.Name]
		if !ok {
			die("unknown string constant %s", v.Name)
		}
		return s
	}
	die("cannot evaluate string expression %T", x)
	return ""
}

func coqStr(s string) string {
	// Coq string literal: double the quotes. Non-printable bytes are not expected in field names.
	for _, c := range []byte(s) {
		if c < 32 || c > 126 {
			die("non printable byte in constant %q", s)
		}
	}
	return "(bs \"" + strings.ReplaceAll(s, "\"", "\"\"") + "\")"
}

var kindName = map[string]string{
	"pUnknown": "PUnknown", "pString": "PString", "pURI": "PURI", "pIp": "PIp", "pTime": "PTime",
	"pWarcType": "PWarcType", "pWarcId": "PWarcId", "pInt": "PInt", "pLong": "PLong",
	"pDigest": "PDigest", "pTruncReason": "PTruncReason",
}

func findVar(files map[string]*ast.File, name string) ast.Expr {
	for _, f := range files {
		for _, d := range f.Decls {
			gd, ok := d.(*ast.GenDecl)
			if !ok || gd.Tok != token.VAR {
				continue
			}
			for _, sp := range gd.Specs {
				vs := sp.(*ast.ValueSpec)
				for i, n := range vs.Names {
					if n.Name == name && i < len(vs.Values) {
						return vs.Values[i]
					}
				}
			}
		}
	}
	die("variable %s not found", name)
	return nil
}

func genFieldTable(repo, out string) {
	e, files, _ := loadEnv(repo)
	var sb strings.Builder
	sb.WriteString("(* GENERATED from " + repo + "/headerfielddef.go by /verif/go/gen — do not edit *)\n")
	sb.WriteString("From Coq Require Import List NArith String.\nImport ListNotations.\nRequire Import Model.Bytes Model.FieldDef.\nLocal Open Scope N_scope.\nLocal Open Scope string_scope.\n\n")
	cl, ok := findVar(files, "fieldDefs").(*ast.CompositeLit)
	if !ok {
		die("fieldDefs is not a composite literal")
	}
	sb.WriteString("Definition field_table : list fielddef := [\n")
	for i, el := range cl.Elts {
		row, ok := el.(*ast.CompositeLit)
		if !ok {
			die("fieldDefs row %d is not a composite literal", i)
		}
		var name, kind string
		var rep bool
		var rec, spec int64
		get := func(idx int, key string) ast.Expr {
			for _, x := range row.Elts {
				if kv, ok := x.(*ast.KeyValueExpr); ok {
					if k, ok := kv.Key.(*ast.Ident); ok && k.Name == key {
						return kv.Value
					}
				}
			}
			if idx < len(row.Elts) {
				if _, ok := row.Elts[idx].(*ast.KeyValueExpr); !ok {
					return row.Elts[idx]
				}
			}
			return nil
		}
		if x := get(0, "name"); x != nil {
			name = e.evalStr(x)
		}
		if x := get(1, "validationFunc"); x != nil {
			id, ok := x.(*ast.Ident)
			if !ok {
				die("row %d: validationFunc is not an identifier", i)
			}
			kind, ok = kindName[id.Name]
			if !ok {
				die("row %d: unknown validation function %s", i, id.Name)
			}
		}
		if x := get(2, "repeatable"); x != nil {
			rep = x.(*ast.Ident).Name == "true"
		}
		if x := get(3, "supportedRec"); x != nil {
			rec = e.evalInt(x)
		}
		if x := get(4, "supportedSpec"); x != nil {
			spec = e.evalInt(x)
		}
		sep := ";"
		if i == len(cl.Elts)-1 {
			sep = ""
		}
		fmt.Fprintf(&sb, "  mkdef %s %s %v %d %d%s\n", coqStr(name), kind, rep, rec, spec, sep)
	}
	sb.WriteString("].\n\n")
	rf, ok := findVar(files, "requiredFields").(*ast.CompositeLit)
	if !ok {
		die("requiredFields is not a composite literal")
	}
	sb.WriteString("Definition required_fields : list bytes := [")
	for i, el := range rf.Elts {
		if i > 0 {
			sb.WriteString("; ")
		}
		sb.WriteString(coqStr(e.evalStr(el)))
	}
	sb.WriteString("].\n")
	writeIfChanged(out, sb.String())
}

func writeIfChanged(path, content string) {
	old, err := os.ReadFile(path)
	if err == nil && string(old) == content {
		return
	}
	if err := os.WriteFile(path, []byte(content), 0o644); err != nil {
		die("write %s: %v", path, err)
	}
}

func main() {
	if len(os.Args) < 4 {
		die("usage: gen <what> <repo> <out>")
	}
	switch os.Args[1] {
	case "fieldtable":
		genFieldTable(os.Args[2], os.Args[3])
	case "racetable":
		genRaceTable(os.Args[2], os.Args[3])
	case "syncskel":
		genSyncSkeleton(os.Args[2], os.Args[3])
	default:
		die("unknown generator %s", os.Args[1])
	}
}
