package main

// syncskel: the synchronisation skeleton of warcfile.go (tie T-A for Model/Protocol.v).
//
// For every function and method of warcfile.go the translator keeps, in source order, only the
// operations the protocol model is about and drops everything else:
//
//	(send c) (recv c) (close c)                       channel operations, c = field or variable name
//	(select (case OP BODY...)... [(default BODY...)]) select statements
//	(lock m) (unlock m) (defer-unlock m)              sync.Mutex
//	(wg-add) (wg-done) (wg-wait)                      sync.WaitGroup
//	(go BODY...) / (go f)                             goroutine start
//	(call T.f)                                        call of a function of this file whose own skeleton is not empty
//	(loop BODY...) (range c BODY...)                  for statements that contain one of the above
//	(defer BODY...) (return)                          deferred closures; returns inside select cases and loops
//	(if BODY... [else BODY...])                       conditionals that contain one of the above
//
// Method calls are resolved through the declared types of receivers, parameters, struct fields
// and range variables of this package; calls on values of other types (os.File, gzip.Writer ...)
// are not part of the protocol.  Functions whose skeleton is empty are omitted.

import (
	"fmt"
	"go/ast"
	"go/token"
	"os"
	"sort"
	"strings"
)

type skel struct {
	fields  map[string]map[string]ast.Expr // struct type -> field -> type expr
	methods map[string]*ast.FuncDecl       // "T.m" or "f"
	memo    map[string]string
	busy    map[string]bool
}

func typeName(e ast.Expr) string {
	switch t := e.(type) {
	case *ast.StarExpr:
		return typeName(t.X)
	case *ast.Ident:
		return t.Name
	case *ast.SelectorExpr:
		return typeName(t.X) + "." + t.Sel.Name
	}
	return ""
}

func elemType(e ast.Expr) string {
	switch t := e.(type) {
	case *ast.ArrayType:
		return typeName(t.Elt)
	case *ast.ChanType:
		return typeName(t.Value)
	}
	return ""
}

func chanName(e ast.Expr) string {
	switch t := e.(type) {
	case *ast.Ident:
		return t.Name
	case *ast.SelectorExpr:
		return t.Sel.Name
	case *ast.ParenExpr:
		return chanName(t.X)
	}
	return "?"
}

type scope map[string]string // variable -> named type

func (s scope) clone() scope {
	n := scope{}
	for k, v := range s {
		n[k] = v
	}
	return n
}

// static type (named, of this package) of an expression, "" when unknown
func (k *skel) typeOf(e ast.Expr, sc scope) string {
	switch t := e.(type) {
	case *ast.Ident:
		return sc[t.Name]
	case *ast.ParenExpr:
		return k.typeOf(t.X, sc)
	case *ast.StarExpr:
		return k.typeOf(t.X, sc)
	case *ast.UnaryExpr:
		if t.Op == token.AND {
			return k.typeOf(t.X, sc)
		}
	case *ast.CompositeLit:
		return typeName(t.Type)
	case *ast.SelectorExpr:
		if bt := k.typeOf(t.X, sc); bt != "" {
			if f, ok := k.fields[bt][t.Sel.Name]; ok {
				return typeName(f)
			}
		}
	}
	return ""
}

func (k *skel) fieldExprType(e ast.Expr, sc scope) ast.Expr {
	if se, ok := e.(*ast.SelectorExpr); ok {
		if bt := k.typeOf(se.X, sc); bt != "" {
			return k.fields[bt][se.Sel.Name]
		}
	}
	return nil
}

func (k *skel) funcSkel(name string) string {
	if s, ok := k.memo[name]; ok {
		return s
	}
	if k.busy[name] {
		return "(rec)"
	}
	fd := k.methods[name]
	if fd == nil || fd.Body == nil {
		return ""
	}
	k.busy[name] = true
	sc := scope{}
	if fd.Recv != nil {
		for _, f := range fd.Recv.List {
			for _, n := range f.Names {
				sc[n.Name] = typeName(f.Type)
			}
		}
	}
	for _, f := range fd.Type.Params.List {
		for _, n := range f.Names {
			sc[n.Name] = typeName(f.Type)
			if ct, ok := f.Type.(*ast.ChanType); ok {
				sc["chan:"+n.Name] = typeName(ct.Value)
			}
		}
	}
	s := k.block(fd.Body.List, sc, false)
	delete(k.busy, name)
	k.memo[name] = s
	return s
}

func join(parts []string) string {
	var out []string
	for _, p := range parts {
		if p != "" {
			out = append(out, p)
		}
	}
	return strings.Join(out, " ")
}

func (k *skel) block(stmts []ast.Stmt, sc scope, inCtl bool) string {
	var parts []string
	for _, st := range stmts {
		parts = append(parts, k.stmt(st, sc, inCtl))
	}
	return join(parts)
}

func (k *skel) stmt(st ast.Stmt, sc scope, inCtl bool) string {
	switch s := st.(type) {
	case *ast.SendStmt:
		return join([]string{k.expr(s.Value, sc), "(send " + chanName(s.Chan) + ")"})
	case *ast.ExprStmt:
		return k.expr(s.X, sc)
	case *ast.AssignStmt:
		var parts []string
		for _, r := range s.Rhs {
			parts = append(parts, k.expr(r, sc))
		}
		if s.Tok == token.DEFINE || s.Tok == token.ASSIGN {
			for i, l := range s.Lhs {
				if id, ok := l.(*ast.Ident); ok && i < len(s.Rhs) {
					if fl, ok := s.Rhs[i].(*ast.FuncLit); ok {
						// a closure bound to a local name: inlined where it is called
						sc["closure:"+id.Name] = k.block(fl.Body.List, sc.clone(), false)
					}
					if t := k.typeOf(s.Rhs[i], sc); t != "" {
						sc[id.Name] = t
					}
				}
			}
		}
		return join(parts)
	case *ast.DeclStmt:
		return ""
	case *ast.GoStmt:
		if fl, ok := s.Call.Fun.(*ast.FuncLit); ok {
			return "(go " + k.block(fl.Body.List, sc.clone(), false) + ")"
		}
		if n := k.callee(s.Call, sc); n != "" {
			return "(go " + n + ")"
		}
		return "(go ?)"
	case *ast.DeferStmt:
		if fl, ok := s.Call.Fun.(*ast.FuncLit); ok {
			if b := k.block(fl.Body.List, sc.clone(), false); b != "" {
				return "(defer " + b + ")"
			}
			return ""
		}
		if se, ok := s.Call.Fun.(*ast.SelectorExpr); ok && se.Sel.Name == "Unlock" {
			return "(defer-unlock " + chanName(se.X) + ")"
		}
		if b := k.expr(s.Call, sc); b != "" {
			return "(defer " + b + ")"
		}
		return ""
	case *ast.ReturnStmt:
		var parts []string
		for _, r := range s.Results {
			parts = append(parts, k.expr(r, sc))
		}
		if inCtl {
			parts = append(parts, "(return)")
		}
		return join(parts)
	case *ast.BlockStmt:
		return k.block(s.List, sc, inCtl)
	case *ast.IfStmt:
		var pre string
		if s.Init != nil {
			pre = k.stmt(s.Init, sc, inCtl)
		}
		cond := k.expr(s.Cond, sc)
		th := k.block(s.Body.List, sc.clone(), inCtl)
		el := ""
		if s.Else != nil {
			el = k.stmt(s.Else, sc.clone(), inCtl)
		}
		if strings.Trim(th, "() return") == "" && strings.Trim(el, "() return") == "" {
			// only returns: keep them only when they matter (inside a select case or loop)
			if !inCtl || (th == "" && el == "") {
				return join([]string{pre, cond})
			}
		}
		r := "(if " + th
		if el != "" {
			r += " else " + el
		}
		return join([]string{pre, cond, r + ")"})
	case *ast.ForStmt:
		var pre string
		if s.Init != nil {
			pre = k.stmt(s.Init, sc, inCtl)
		}
		b := k.block(s.Body.List, sc.clone(), true)
		if strings.Trim(b, "() return") == "" {
			return pre
		}
		return join([]string{pre, "(loop " + b + ")"})
	case *ast.RangeStmt:
		inner := sc.clone()
		isChan := false
		if t := k.fieldExprType(s.X, sc); t != nil {
			if _, ok := t.(*ast.ChanType); ok {
				isChan = true
			}
			if v, ok := s.Value.(*ast.Ident); ok && s.Value != nil {
				inner[v.Name] = elemType(t)
			}
			if v, ok := s.Key.(*ast.Ident); ok && isChan {
				inner[v.Name] = elemType(t)
			}
		}
		if id, ok := s.X.(*ast.Ident); ok {
			if sc["chan:"+id.Name] != "" {
				isChan = true
				if v, ok := s.Key.(*ast.Ident); ok {
					inner[v.Name] = sc["chan:"+id.Name]
				}
			}
		}
		b := k.block(s.Body.List, inner, true)
		if isChan {
			return "(range " + chanName(s.X) + " " + b + ")"
		}
		if strings.Trim(b, "() return") == "" {
			return ""
		}
		return "(loop " + b + ")"
	case *ast.SelectStmt:
		var cases []string
		for _, c := range s.Body.List {
			cc := c.(*ast.CommClause)
			body := k.block(cc.Body, sc.clone(), true)
			if cc.Comm == nil {
				cases = append(cases, strings.TrimSpace("(default "+body)+")")
				continue
			}
			op := k.stmt(cc.Comm, sc, true)
			cases = append(cases, strings.TrimSpace("(case "+op+" "+body)+")")
		}
		return "(select " + strings.Join(cases, " ") + ")"
	case *ast.SwitchStmt:
		var parts []string
		for _, c := range s.Body.List {
			parts = append(parts, k.block(c.(*ast.CaseClause).Body, sc.clone(), inCtl))
		}
		if b := join(parts); strings.Trim(b, "() return") != "" {
			return "(switch " + b + ")"
		}
		return ""
	case *ast.LabeledStmt:
		return k.stmt(s.Stmt, sc, inCtl)
	}
	return ""
}

// name "T.m" / "f" of the function of this package a call goes to, "" when it is none
func (k *skel) callee(c *ast.CallExpr, sc scope) string {
	switch f := c.Fun.(type) {
	case *ast.Ident:
		if _, ok := k.methods[f.Name]; ok {
			return f.Name
		}
	case *ast.SelectorExpr:
		if t := k.typeOf(f.X, sc); t != "" {
			if _, ok := k.methods[t+"."+f.Sel.Name]; ok {
				return t + "." + f.Sel.Name
			}
		}
	}
	return ""
}

func (k *skel) expr(e ast.Expr, sc scope) string {
	switch x := e.(type) {
	case nil:
		return ""
	case *ast.UnaryExpr:
		if x.Op == token.ARROW {
			return "(recv " + chanName(x.X) + ")"
		}
		return k.expr(x.X, sc)
	case *ast.ParenExpr:
		return k.expr(x.X, sc)
	case *ast.BinaryExpr:
		return join([]string{k.expr(x.X, sc), k.expr(x.Y, sc)})
	case *ast.FuncLit:
		// a closure stored in a variable: its body is attributed where it is called; record it
		return ""
	case *ast.CallExpr:
		var parts []string
		for _, a := range x.Args {
			parts = append(parts, k.expr(a, sc))
		}
		if id, ok := x.Fun.(*ast.Ident); ok && id.Name == "close" && len(x.Args) == 1 {
			return join(append(parts, "(close "+chanName(x.Args[0])+")"))
		}
		if id, ok := x.Fun.(*ast.Ident); ok {
			if cl := sc["closure:"+id.Name]; cl != "" {
				return join(append(parts, cl))
			}
		}
		if se, ok := x.Fun.(*ast.SelectorExpr); ok {
			recvT := ""
			if ft := k.fieldExprType(se.X, sc); ft != nil {
				recvT = typeName(ft)
			}
			switch {
			case se.Sel.Name == "Lock" && (recvT == "sync.Mutex" || recvT == "sync.RWMutex"):
				return join(append(parts, "(lock "+chanName(se.X)+")"))
			case se.Sel.Name == "Unlock" && (recvT == "sync.Mutex" || recvT == "sync.RWMutex"):
				return join(append(parts, "(unlock "+chanName(se.X)+")"))
			case recvT == "sync.WaitGroup" && se.Sel.Name == "Add":
				return join(append(parts, "(wg-add)"))
			case recvT == "sync.WaitGroup" && se.Sel.Name == "Done":
				return join(append(parts, "(wg-done)"))
			case recvT == "sync.WaitGroup" && se.Sel.Name == "Wait":
				return join(append(parts, "(wg-wait)"))
			}
		}
		if n := k.callee(x, sc); n != "" {
			if k.funcSkel(n) != "" {
				return join(append(parts, "(call "+n+")"))
			}
		}
		return join(parts)
	}
	return ""
}

func genSyncSkeleton(repo, out string) {
	_, files, _ := loadEnv(repo)
	k := &skel{fields: map[string]map[string]ast.Expr{}, methods: map[string]*ast.FuncDecl{}, memo: map[string]string{}, busy: map[string]bool{}}
	// struct fields and functions of the whole package resolve types; skeletons are taken from warcfile.go
	for _, f := range files {
		for _, d := range f.Decls {
			switch dd := d.(type) {
			case *ast.GenDecl:
				for _, sp := range dd.Specs {
					if ts, ok := sp.(*ast.TypeSpec); ok {
						if st, ok := ts.Type.(*ast.StructType); ok {
							m := map[string]ast.Expr{}
							for _, fl := range st.Fields.List {
								for _, n := range fl.Names {
									m[n.Name] = fl.Type
								}
							}
							k.fields[ts.Name.Name] = m
						}
					}
				}
			}
		}
	}
	wf := files["warcfile.go"]
	if wf == nil {
		die("warcfile.go not found")
	}
	var names []string
	for _, d := range wf.Decls {
		if fd, ok := d.(*ast.FuncDecl); ok {
			n := fd.Name.Name
			if fd.Recv != nil && len(fd.Recv.List) == 1 {
				n = typeName(fd.Recv.List[0].Type) + "." + n
			}
			k.methods[n] = fd
			names = append(names, n)
		}
	}
	sort.Strings(names)
	var b strings.Builder
	b.WriteString("(** GENERATED by go/gen (syncskel) from /repo/warcfile.go - do not edit.\n    The synchronisation skeleton of every function that takes part in the writer protocol. *)\n")
	b.WriteString("From Coq Require Import String List.\nImport ListNotations.\nLocal Open Scope string_scope.\n\n")
	b.WriteString("Definition sync_skeleton : list (string * string) :=\n  [")
	first := true
	for _, n := range names {
		s := k.funcSkelTop(n)
		if s == "" {
			continue
		}
		if !first {
			b.WriteString(";\n   ")
		}
		first = false
		fmt.Fprintf(&b, "(%q,\n    %q)", n, s)
	}
	b.WriteString("].\n")
	if err := os.WriteFile(out, []byte(b.String()), 0o644); err != nil {
		die("%v", err)
	}
}

// funcSkelTop computes a function's skeleton with closures bound to local names inlined at
// their call sites and channel-typed parameters known.
func (k *skel) funcSkelTop(name string) string {
	fd := k.methods[name]
	if fd == nil || fd.Body == nil {
		return ""
	}
	return k.funcSkel(name)
}
