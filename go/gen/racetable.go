package main

// racetable: the shared-state access table of gowarc (tie T-A for Model/Race.v, property C11).
//
// From the current source of the library packages (the root package and internal/...; test files,
// verif-tagged files excluded) the translator derives
//
//	pkg_vars             every package-level variable: (package, name, kind, mutated outside init)
//	                     - mutated: assigned, inc/decremented, element- or field-assigned, or
//	                     address-taken in any function other than init (function-local shadowing respected);
//	                     kind "sync" for sync.Pool / sync.Mutex / sync.Once / atomic values
//	guarded_accesses     every function that reads or writes a lock-guarded field of
//	                     singleWarcFileWriter (all fields except the immutable opts and the sync
//	                     objects writeLock / shutWriters), or calls such a function without the
//	                     lock: (function, fields, takes writeLock itself, callers in the package);
//	                     accesses through a value created in the same function (constructor,
//	                     not yet shared) are not counted
//	shared_field_writes  plain writes to fields of the shared objects WarcFileWriter and
//	                     PatternNameGenerator outside their constructors (atomic operations excluded)
//	global_mutator_calls calls of functions that change process-wide state of dependencies
//	                     (uuid.EnableRandPool, uuid.SetRand, rand.Seed, os.Setenv, log.SetOutput ...):
//	                     (function, callee, inside init)
//
// Types are resolved as in syncskel.go (receivers, parameters, struct fields, range variables,
// composite literals) - no pointer analysis: aliases of guarded objects under other static types,
// reflection and unsafe are outside what the table sees.

import (
	"fmt"
	"go/ast"
	"go/parser"
	"go/token"
	"os"
	"path/filepath"
	"sort"
	"strings"
)

var guardedType = "singleWarcFileWriter"
var guardExempt = map[string]bool{"opts": true, "writeLock": true, "shutWriters": true}
var sharedTypes = map[string]bool{"WarcFileWriter": true, "PatternNameGenerator": true}
var globalMutators = map[string]bool{
	"uuid.EnableRandPool": true, "uuid.DisableRandPool": true, "uuid.SetRand": true, "uuid.SetClockSequence": true,
	"uuid.SetNodeID": true, "uuid.SetNodeInterface": true, "rand.Seed": true, "os.Setenv": true, "os.Unsetenv": true,
	"os.Chdir": true, "os.Clearenv": true, "log.SetOutput": true, "log.SetFlags": true, "log.SetPrefix": true,
}

func hasVerifTag(path string) bool {
	b, err := os.ReadFile(path)
	if err != nil {
		return false
	}
	for _, l := range strings.Split(string(b), "\n") {
		l = strings.TrimSpace(l)
		if strings.HasPrefix(l, "//go:build") {
			return strings.Contains(l, "verif") && !strings.Contains(l, "!verif")
		}
		if strings.HasPrefix(l, "package ") {
			break
		}
	}
	return false
}

type pkgFiles struct {
	name  string
	files []*ast.File
}

func loadPkgs(repo string) []*pkgFiles {
	var dirs []string
	filepath.Walk(repo, func(p string, info os.FileInfo, err error) error {
		if err != nil {
			return nil
		}
		if info.IsDir() {
			b := filepath.Base(p)
			if p != repo && (strings.HasPrefix(b, ".") || b == "testdata" || b == "cmd" || b == "vendor" || b == "verifharness") {
				return filepath.SkipDir
			}
			dirs = append(dirs, p)
		}
		return nil
	})
	sort.Strings(dirs)
	fset := token.NewFileSet()
	var out []*pkgFiles
	for _, d := range dirs {
		ms, _ := filepath.Glob(filepath.Join(d, "*.go"))
		sort.Strings(ms)
		pf := &pkgFiles{}
		for _, m := range ms {
			b := filepath.Base(m)
			if strings.HasSuffix(b, "_test.go") || strings.HasPrefix(b, "zz_verif") || hasVerifTag(m) {
				continue
			}
			f, err := parser.ParseFile(fset, m, nil, 0)
			if err != nil {
				die("parse %s: %v", m, err)
			}
			rel, _ := filepath.Rel(repo, d)
			if rel == "." {
				rel = f.Name.Name
			}
			pf.name = rel
			pf.files = append(pf.files, f)
		}
		if len(pf.files) > 0 {
			out = append(out, pf)
		}
	}
	return out
}

func rootIdent(e ast.Expr) *ast.Ident {
	for {
		switch t := e.(type) {
		case *ast.Ident:
			return t
		case *ast.SelectorExpr:
			e = t.X
		case *ast.IndexExpr:
			e = t.X
		case *ast.StarExpr:
			e = t.X
		case *ast.ParenExpr:
			e = t.X
		case *ast.SliceExpr:
			e = t.X
		default:
			return nil
		}
	}
}

func localNames(fd *ast.FuncDecl) map[string]bool {
	loc := map[string]bool{}
	add := func(fl *ast.FieldList) {
		if fl == nil {
			return
		}
		for _, f := range fl.List {
			for _, n := range f.Names {
				loc[n.Name] = true
			}
		}
	}
	add(fd.Recv)
	add(fd.Type.Params)
	add(fd.Type.Results)
	ast.Inspect(fd.Body, func(n ast.Node) bool {
		switch s := n.(type) {
		case *ast.AssignStmt:
			if s.Tok == token.DEFINE {
				for _, l := range s.Lhs {
					if id, ok := l.(*ast.Ident); ok {
						loc[id.Name] = true
					}
				}
			}
		case *ast.ValueSpec:
			for _, id := range s.Names {
				loc[id.Name] = true
			}
		case *ast.RangeStmt:
			if s.Tok == token.DEFINE {
				if id, ok := s.Key.(*ast.Ident); ok {
					loc[id.Name] = true
				}
				if id, ok := s.Value.(*ast.Ident); ok {
					loc[id.Name] = true
				}
			}
		case *ast.FuncLit:
			add(s.Type.Params)
		}
		return true
	})
	return loc
}

func varKind(vs *ast.ValueSpec, i int) string {
	t := ""
	if vs.Type != nil {
		t = typeName(vs.Type)
	}
	if t == "" && i < len(vs.Values) {
		switch v := vs.Values[i].(type) {
		case *ast.CompositeLit:
			t = typeName(v.Type)
			if t == "" {
				switch v.Type.(type) {
				case *ast.ArrayType:
					t = "slice"
				case *ast.MapType:
					t = "map"
				}
			}
		case *ast.UnaryExpr:
			if cl, ok := v.X.(*ast.CompositeLit); ok {
				t = typeName(cl.Type)
			}
		case *ast.FuncLit:
			t = "func"
		case *ast.CallExpr:
			if id, ok := v.Fun.(*ast.Ident); ok && id.Name == "make" && len(v.Args) > 0 {
				if _, ok := v.Args[0].(*ast.MapType); ok {
					t = "map"
				} else {
					t = "slice"
				}
			} else {
				t = "call:" + typeName(v.Fun)
			}
		case *ast.SelectorExpr, *ast.Ident:
			t = "value"
		case *ast.BasicLit:
			t = "const"
		}
	}
	switch t {
	case "sync.Pool", "sync.Mutex", "sync.RWMutex", "sync.Once", "sync.WaitGroup", "sync.Map", "atomic.Int32", "atomic.Int64", "atomic.Value", "atomic.Bool":
		return "sync"
	}
	if t == "" {
		t = "other"
	}
	return t
}

func genRaceTable(repo, out string) {
	pkgs := loadPkgs(repo)
	var b strings.Builder
	b.WriteString("(** GENERATED by go/gen (racetable) from the library packages of /repo - do not edit. *)\n")
	b.WriteString("From Coq Require Import String List.\nImport ListNotations.\nLocal Open Scope string_scope.\n\n")

	// ---- package-level variables
	var rows []string
	var mutRows []string
	for _, p := range pkgs {
		vars := map[string]string{}
		var order []string
		for _, f := range p.files {
			for _, d := range f.Decls {
				gd, ok := d.(*ast.GenDecl)
				if !ok || gd.Tok != token.VAR {
					continue
				}
				for _, sp := range gd.Specs {
					vs := sp.(*ast.ValueSpec)
					for i, n := range vs.Names {
						if n.Name == "_" {
							continue
						}
						vars[n.Name] = varKind(vs, i)
						order = append(order, n.Name)
					}
				}
			}
		}
		mutated := map[string]bool{}
		for _, f := range p.files {
			for _, d := range f.Decls {
				fd, ok := d.(*ast.FuncDecl)
				if !ok || fd.Body == nil {
					continue
				}
				inInit := fd.Recv == nil && fd.Name.Name == "init"
				loc := localNames(fd)
				fname := fd.Name.Name
				if fd.Recv != nil && len(fd.Recv.List) == 1 {
					fname = typeName(fd.Recv.List[0].Type) + "." + fname
				}
				mark := func(e ast.Expr) {
					if id := rootIdent(e); id != nil && !loc[id.Name] {
						if _, ok := vars[id.Name]; ok && !inInit {
							mutated[id.Name] = true
						}
					}
				}
				ast.Inspect(fd.Body, func(n ast.Node) bool {
					switch s := n.(type) {
					case *ast.AssignStmt:
						if s.Tok != token.DEFINE {
							for _, l := range s.Lhs {
								mark(l)
							}
						}
					case *ast.IncDecStmt:
						mark(s.X)
					case *ast.UnaryExpr:
						if s.Op == token.AND {
							if id, ok := s.X.(*ast.Ident); ok {
								// address of a package variable escapes (sync objects are used this way legitimately)
								if k, ok := vars[id.Name]; ok && !loc[id.Name] && k != "sync" && !inInit {
									mutated[id.Name] = true
								}
							}
						}
					case *ast.CallExpr:
						if n := typeName(s.Fun); globalMutators[n] {
							mutRows = append(mutRows, fmt.Sprintf("(%q, %q, %v)", p.name+"."+fname, n, inInit))
						}
					}
					return true
				})
			}
		}
		for _, n := range order {
			rows = append(rows, fmt.Sprintf("(%q, %q, %q, %v)", p.name, n, vars[n], mutated[n]))
		}
	}
	b.WriteString("Definition pkg_vars : list (string * string * string * bool) :=\n  [" + strings.Join(rows, ";\n   ") + "].\n\n")

	// ---- guarded fields of singleWarcFileWriter, shared-object field writes (root package)
	_, files, _ := loadEnv(repo)
	k := &skel{fields: map[string]map[string]ast.Expr{}, methods: map[string]*ast.FuncDecl{}, memo: map[string]string{}, busy: map[string]bool{}}
	var fnames []string
	for fn, f := range files {
		if hasVerifTag(filepath.Join(repo, fn)) {
			continue
		}
		for _, d := range f.Decls {
			switch dd := d.(type) {
			case *ast.GenDecl:
				for _, sp := range dd.Specs {
					if ts, ok := sp.(*ast.TypeSpec); ok {
						if st, ok := ts.Type.(*ast.StructType); ok {
							m := map[string]ast.Expr{}
							for _, fl := range st.Fields.List {
								for _, n := range fl.Names {
									m[n.Name] = fl.Type
								}
							}
							k.fields[ts.Name.Name] = m
						}
					}
				}
			case *ast.FuncDecl:
				n := dd.Name.Name
				if dd.Recv != nil && len(dd.Recv.List) == 1 {
					n = typeName(dd.Recv.List[0].Type) + "." + n
				}
				if dd.Body != nil {
					k.methods[n] = dd
					fnames = append(fnames, n)
				}
			}
		}
	}
	sort.Strings(fnames)
	type finfo struct {
		fields  map[string]bool
		locks   bool
		calls   map[string]bool
		callers map[string]bool
	}
	info := map[string]*finfo{}
	var fieldWrites []string
	var serialRows []string // every access to a field named Serial (the file-name generator's counter)
	for _, fn := range fnames {
		fd := k.methods[fn]
		fi := &finfo{fields: map[string]bool{}, calls: map[string]bool{}, callers: map[string]bool{}}
		info[fn] = fi
		// flow-insensitive scope: receiver, parameters, := from resolvable expressions, range variables
		sc := scope{}
		fresh := map[string]bool{} // variables bound to a composite literal of this function: not yet shared
		if fd.Recv != nil {
			for _, f := range fd.Recv.List {
				for _, n := range f.Names {
					sc[n.Name] = typeName(f.Type)
				}
			}
		}
		for _, f := range fd.Type.Params.List {
			for _, n := range f.Names {
				sc[n.Name] = typeName(f.Type)
			}
		}
		for pass := 0; pass < 3; pass++ {
			ast.Inspect(fd.Body, func(n ast.Node) bool {
				switch s := n.(type) {
				case *ast.AssignStmt:
					for i, l := range s.Lhs {
						id, ok := l.(*ast.Ident)
						if !ok || i >= len(s.Rhs) {
							continue
						}
						if t := k.typeOf(s.Rhs[i], sc); t != "" && s.Tok == token.DEFINE {
							sc[id.Name] = t
							r := s.Rhs[i]
							if u, ok := r.(*ast.UnaryExpr); ok {
								r = u.X
							}
							if _, ok := r.(*ast.CompositeLit); ok {
								fresh[id.Name] = true
							}
						}
					}
				case *ast.RangeStmt:
					if t := k.fieldExprType(s.X, sc); t != nil {
						if v, ok := s.Value.(*ast.Ident); ok {
							sc[v.Name] = elemType(t)
						}
					}
				}
				return true
			})
		}
		isCtor := strings.HasPrefix(fd.Name.Name, "New") && fd.Recv == nil
		written := map[ast.Expr]bool{}
		atomicArg := map[ast.Expr]bool{}
		ast.Inspect(fd.Body, func(n ast.Node) bool {
			switch s := n.(type) {
			case *ast.AssignStmt:
				if s.Tok != token.DEFINE {
					for _, l := range s.Lhs {
						written[l] = true
					}
				}
			case *ast.IncDecStmt:
				written[s.X] = true
			case *ast.CallExpr:
				if strings.HasPrefix(typeName(s.Fun), "atomic.") {
					for _, a := range s.Args {
						if u, ok := a.(*ast.UnaryExpr); ok && u.Op == token.AND {
							atomicArg[u.X] = true
						}
					}
				}
				if c := k.callee(s, sc); c != "" {
					fi.calls[c] = true
				}
				if se, ok := s.Fun.(*ast.SelectorExpr); ok && se.Sel.Name == "Lock" {
					if inner, ok := se.X.(*ast.SelectorExpr); ok && inner.Sel.Name == "writeLock" && k.typeOf(inner.X, sc) == guardedType {
						fi.locks = true
					}
				}
			}
			return true
		})
		{
			// the serial of a name generator: how each occurrence of <x>.Serial in this function is used
			viaAtomic := map[ast.Expr]string{}
			ast.Inspect(fd.Body, func(n ast.Node) bool {
				if c, ok := n.(*ast.CallExpr); ok && strings.HasPrefix(typeName(c.Fun), "atomic.") {
					for _, a := range c.Args {
						if u, ok := a.(*ast.UnaryExpr); ok && u.Op == token.AND {
							viaAtomic[u.X] = typeName(c.Fun)
						}
					}
				}
				return true
			})
			ast.Inspect(fd.Body, func(n ast.Node) bool {
				se, ok := n.(*ast.SelectorExpr)
				if !ok || se.Sel.Name != "Serial" {
					return true
				}
				kind := "plain-read"
				if a, ok := viaAtomic[ast.Expr(se)]; ok {
					kind = a
				} else if written[ast.Expr(se)] {
					kind = "plain-write"
				} else {
					// &x.Serial handed to anything but sync/atomic: the address escapes
					kind = "plain-read"
				}
				serialRows = append(serialRows, fmt.Sprintf("(%q, %q)", fn, kind))
				return true
			})
		}
		ast.Inspect(fd.Body, func(n ast.Node) bool {
			se, ok := n.(*ast.SelectorExpr)
			if !ok {
				return true
			}
			bt := k.typeOf(se.X, sc)
			if bt == "" {
				return true
			}
			if _, isField := k.fields[bt][se.Sel.Name]; !isField {
				return true
			}
			base := rootIdent(se.X)
			if bt == guardedType && !guardExempt[se.Sel.Name] && !(base != nil && fresh[base.Name]) {
				fi.fields[se.Sel.Name] = true
			}
			if sharedTypes[bt] && written[ast.Expr(se)] && !atomicArg[ast.Expr(se)] && !isCtor && !(base != nil && fresh[base.Name]) {
				fieldWrites = append(fieldWrites, fmt.Sprintf("(%q, %q)", fn, bt+"."+se.Sel.Name))
			}
			return true
		})
	}
	for fn, fi := range info {
		for c := range fi.calls {
			if ci := info[c]; ci != nil {
				ci.callers[fn] = true
			}
		}
	}
	// rows: functions touching guarded fields, closed under "calls a non-locking row"
	inTable := map[string]bool{}
	for fn, fi := range info {
		if len(fi.fields) > 0 {
			inTable[fn] = true
		}
	}
	for changed := true; changed; {
		changed = false
		for fn, fi := range info {
			if inTable[fn] {
				continue
			}
			for c := range fi.calls {
				if inTable[c] && !info[c].locks {
					inTable[fn] = true
					changed = true
				}
			}
		}
	}
	var grows []string
	for _, fn := range fnames {
		if !inTable[fn] {
			continue
		}
		fi := info[fn]
		q := func(m map[string]bool) string {
			var l []string
			for x := range m {
				l = append(l, fmt.Sprintf("%q", x))
			}
			sort.Strings(l)
			return "[" + strings.Join(l, "; ") + "]"
		}
		grows = append(grows, fmt.Sprintf("(%q, %s, %v, %s)", fn, q(fi.fields), fi.locks, q(fi.callers)))
	}
	b.WriteString("Definition guarded_accesses : list (string * list string * bool * list string) :=\n  [" + strings.Join(grows, ";\n   ") + "].\n\n")
	sort.Strings(fieldWrites)
	b.WriteString("Definition shared_field_writes : list (string * string) :=\n  [" + strings.Join(fieldWrites, ";\n   ") + "].\n\n")
	b.WriteString("Definition serial_accesses : list (string * string) :=\n  [" + strings.Join(serialRows, ";\n   ") + "].\n\n")
	sort.Strings(mutRows)
	b.WriteString("Definition global_mutator_calls : list (string * string * bool) :=\n  [" + strings.Join(mutRows, ";\n   ") + "].\n")
	if err := os.WriteFile(out, []byte(b.String()), 0o644); err != nil {
		die("%v", err)
	}
}
