package gowarc

import (
	"bufio"
	"bytes"
	"fmt"
	"io"
	"testing/iotest"
	"time"

	"github.com/nlnwa/gowarc/v2/internal/diskbuffer"
)

// White-box access for the verification harness (injected at build time with -overlay as
// /repo/zz_verif_export.go; never part of the repository).

// VerifValidateHeader runs validateHeader on a header set added field by field.
func VerifValidateHeader(pairs [][2]string, vid int, spec, unk int) (rt uint16, after string, findings []error, err error) {
	wf := &WarcFields{}
	for _, p := range pairs {
		wf.Add(p[0], p[1])
	}
	var version *WarcVersion
	switch vid {
	case 1:
		version = V1_0
	case 2:
		version = V1_1
	default:
		version = &WarcVersion{txt: "0.9"}
	}
	opts := newOptions(WithSpecViolationPolicy(errorPolicy(spec)), WithUnknownRecordTypePolicy(errorPolicy(unk)))
	validation := &Validation{}
	t, err := validateHeader(wf, version, validation, opts)
	return uint16(t), wf.String(), []error(*validation), err
}

// VerifParseFields runs warcfieldsParser.Parse on r.
func VerifParseFields(r *bufio.Reader, policy int) (wf *WarcFields, findings []error, err error) {
	p := &warcfieldsParser{Options: newOptions(WithSyntaxErrorPolicy(errorPolicy(policy)))}
	v := &Validation{}
	wf, err = p.Parse(r, v, &position{})
	return wf, []error(*v), err
}

// VerifErrClass classifies an error returned by the parser.
func VerifErrClass(err error) string {
	switch {
	case err == nil:
		return "nil"
	case err == errEndOfHeaders:
		return "eoh"
	}
	if _, ok := err.(*SyntaxError); ok {
		return "syn"
	}
	if err.Error() == "missing End of WARC-Fields marker" {
		return "mrk"
	}
	return "other"
}

// VerifNewBlock constructs a block the way parseBlock does: kind "g" generic, "h" http (request or
// response, decided by the content). The source is seekable (a spill buffer, as in the builder) or a
// one-shot stream (as in the parser).
func VerifNewBlock(kind string, content []byte, cached bool, alg string, enc int, maxMem int64, tmp string) (Block, error) {
	opts := newOptions(WithDefaultDigestAlgorithm(alg), WithDefaultDigestEncoding(digestEncoding(enc)),
		WithBufferMaxMemBytes(maxMem), WithBufferTmpDir(tmp), WithBlockErrorPolicy(ErrIgnore))
	var r io.Reader
	if cached {
		b := diskbuffer.New(opts.bufferOptions...)
		if _, err := b.Write(content); err != nil {
			return nil, err
		}
		r = b
	} else {
		// a one-shot source, delivering its bytes the three ways an io.Reader may: plainly, the last
		// bytes together with io.EOF, or one byte at a time
		switch len(content) % 4 {
		case 0:
			r = struct{ io.Reader }{bytes.NewReader(content)}
		case 1, 2:
			r = iotest.DataErrReader(bytes.NewReader(content))
		default:
			r = iotest.OneByteReader(bytes.NewReader(content))
		}
	}
	bd, err := newDigest(alg, digestEncoding(enc))
	if err != nil {
		return nil, err
	}
	pd, _ := newDigest(alg, digestEncoding(enc))
	switch kind {
	case "g":
		return newGenericBlock(opts, r, bd), nil
	case "h":
		wf := &WarcFields{}
		wf.Set(ContentLength, "0")
		return newHttpBlock(opts, wf, r, bd, pd, &Validation{})
	case "w":
		return newWarcFieldsBlock(opts, &WarcFields{}, r, bd, &Validation{})
	case "v":
		// through the public parser (a revisit record whose block is the content)
		var rec bytes.Buffer
		fmt.Fprintf(&rec, "WARC/1.1\r\nWARC-Type: revisit\r\nWARC-Record-ID: <urn:uuid:1>\r\nWARC-Date: 2021-05-06T07:08:09Z\r\n"+
			"WARC-Profile: %s\r\nContent-Type: application/http\r\nContent-Length: %d\r\n\r\n", ProfileServerNotModifiedV1_1, len(content))
		rec.Write(content)
		rec.WriteString("\r\n\r\n")
		wr, _, _, err := NewUnmarshaler(VerifPolicies(0, 0, 0, 0), WithDefaultDigestAlgorithm(alg), WithDefaultDigestEncoding(digestEncoding(enc)),
			WithBufferMaxMemBytes(maxMem), WithBufferTmpDir(tmp)).Unmarshal(bufio.NewReader(&rec))
		if err != nil {
			return nil, err
		}
		return wr.Block(), nil
	}
	return nil, nil
}

// VerifPolicies sets the four error policies from integers (0 ignore, 1 warn, 2 fail).
func VerifPolicies(syntax, spec, unknown, block int) WarcRecordOption {
	return newFuncWarcRecordOption(func(o *warcRecordOptions) {
		o.errSyntax, o.errSpec, o.errUnknownRecordType, o.errBlock =
			errorPolicy(syntax), errorPolicy(spec), errorPolicy(unknown), errorPolicy(block)
	})
}

func VerifDigestEncoding(e int) WarcRecordOption { return WithDefaultDigestEncoding(digestEncoding(e)) }

// VerifSkipParseBlock is WithSkipParseBlock (kept separate so that a change of that option is visible).
func VerifSkipParseBlock() WarcRecordOption { return WithSkipParseBlock() }

// VerifSetNow fixes the clock used for WARC-Date of warcinfo records and for {ts} in file names.
func VerifSetNow(t time.Time) { now = func() time.Time { return t } }
