package gowarc

import "bufio"

// White-box access for the verification harness (injected at build time with -overlay as
// /repo/zz_verif_export.go; never part of the repository).

// VerifValidateHeader runs validateHeader on a header set added field by field.
func VerifValidateHeader(pairs [][2]string, vid int, spec, unk int) (rt uint16, after string, findings []error, err error) {
	wf := &WarcFields{}
	for _, p := range pairs {
		wf.Add(p[0], p[1])
	}
	var version *WarcVersion
	switch vid {
	case 1:
		version = V1_0
	case 2:
		version = V1_1
	default:
		version = &WarcVersion{txt: "0.9"}
	}
	opts := newOptions(WithSpecViolationPolicy(errorPolicy(spec)), WithUnknownRecordTypePolicy(errorPolicy(unk)))
	validation := &Validation{}
	t, err := validateHeader(wf, version, validation, opts)
	return uint16(t), wf.String(), []error(*validation), err
}

// VerifParseFields runs warcfieldsParser.Parse on r.
func VerifParseFields(r *bufio.Reader, policy int) (wf *WarcFields, findings []error, err error) {
	p := &warcfieldsParser{Options: newOptions(WithSyntaxErrorPolicy(errorPolicy(policy)))}
	v := &Validation{}
	wf, err = p.Parse(r, v, &position{})
	return wf, []error(*v), err
}

// VerifErrClass classifies an error returned by the parser.
func VerifErrClass(err error) string {
	switch {
	case err == nil:
		return "nil"
	case err == errEndOfHeaders:
		return "eoh"
	}
	if _, ok := err.(*SyntaxError); ok {
		return "syn"
	}
	if err.Error() == "missing End of WARC-Fields marker" {
		return "mrk"
	}
	return "other"
}
