package gowarc

// White-box access for the verification harness (injected at build time with -overlay as
// /repo/zz_verif_export.go; never part of the repository).

// VerifValidateHeader runs validateHeader on a header set added field by field.
func VerifValidateHeader(pairs [][2]string, vid int, spec, unk int) (rt uint16, after string, findings []error, err error) {
	wf := &WarcFields{}
	for _, p := range pairs {
		wf.Add(p[0], p[1])
	}
	var version *WarcVersion
	switch vid {
	case 1:
		version = V1_0
	case 2:
		version = V1_1
	default:
		version = &WarcVersion{txt: "0.9"}
	}
	opts := newOptions(WithSpecViolationPolicy(errorPolicy(spec)), WithUnknownRecordTypePolicy(errorPolicy(unk)))
	validation := &Validation{}
	t, err := validateHeader(wf, version, validation, opts)
	return uint16(t), wf.String(), []error(*validation), err
}
