(* driver.ml — runs the extracted Coq model on the case lines the Go harness
   produced (tie T-B).  usage: driver <cases.txt> <model_out.txt> <spec_out.txt>
   Oracle questions (behaviour of trusted components: Unicode case folding,
   hashes, mime decoding, URL/IP/time parsers ...) are printed on stdout as
   "? <kind> <args>" and the answer is read as one line from stdin. *)
open Model
type string = Stdlib.String.t

(* ---------- conversions ---------- *)
let rec pos_of_int (i : int) : positive =
  if i <= 1 then XH
  else if i land 1 = 0 then XO (pos_of_int (i lsr 1)) else XI (pos_of_int (i lsr 1))
let n_of_int (i : int) : n = if i <= 0 then N0 else Npos (pos_of_int i)
let rec int_of_pos = function XH -> 1 | XO p -> 2 * int_of_pos p | XI p -> 2 * int_of_pos p + 1
let int_of_n = function N0 -> 0 | Npos p -> int_of_pos p
let nat_of_int (i : int) : nat = let rec go i acc = if i <= 0 then acc else go (i - 1) (S acc) in go i O
let int_of_nat (n : nat) : int = let rec go n acc = match n with O -> acc | S m -> go m (acc + 1) in go n 0
let z_of_int (i : int) : z = if i = 0 then Z0 else if i > 0 then Zpos (pos_of_int i) else Zneg (pos_of_int (-i))
let int_of_z = function Z0 -> 0 | Zpos p -> int_of_pos p | Zneg p -> - (int_of_pos p)

let bytes_of_str (s : string) : n list =
  List.init (String.length s) (fun i -> n_of_int (Char.code s.[i]))
let str_of_bytes (b : n list) : string =
  let buf = Buffer.create 16 in
  List.iter (fun c -> Buffer.add_char buf (Char.chr ((int_of_n c) land 255))) b;
  Buffer.contents buf
let hexdigit c = match c with
  | '0'..'9' -> Char.code c - 48 | 'a'..'f' -> Char.code c - 87 | 'A'..'F' -> Char.code c - 55
  | _ -> failwith "bad hex"
(* token "h<hex>" -> bytes *)
let unhex (t : string) : n list =
  if String.length t = 0 || t.[0] <> 'h' then failwith ("expected hex token, got " ^ t);
  let n = (String.length t - 1) / 2 in
  List.init n (fun i -> n_of_int (hexdigit t.[1 + 2*i] * 16 + hexdigit t.[2 + 2*i]))
let hex (b : n list) : string =
  let buf = Buffer.create 16 in
  Buffer.add_char buf 'h';
  List.iter (fun c -> Buffer.add_string buf (Printf.sprintf "%02x" ((int_of_n c) land 255))) b;
  Buffer.contents buf
let z_of_tok (t : string) : z = z_of_dec (bytes_of_str t)
let tok_of_z (x : z) : string = str_of_bytes (itoa x)

(* ---------- oracle channel ---------- *)
let oracle_cache : (string, string) Hashtbl.t = Hashtbl.create 64
let ask (q : string) : string =
  match Hashtbl.find_opt oracle_cache q with
  | Some a -> a
  | None ->
    print_string ("? " ^ q ^ "\n"); flush stdout;
    let a = input_line stdin in
    Hashtbl.replace oracle_cache q a; a
let uni_lower (s : n list) : n list = unhex (ask ("lower " ^ hex s))

(* ---------- token stream ---------- *)
type toks = { mutable rest : string list }
let next t = match t.rest with x :: r -> t.rest <- r; x | [] -> failwith "unexpected end of case line"
let next_int t = int_of_string (next t)
let next_hex t = unhex (next t)

(* ---------- C18: fields ---------- *)
let parse_fop t : fop =
  match next t with
  | "add" -> let n = next_hex t in let v = next_hex t in FAdd (n, v)
  | "addint" -> let n = next_hex t in let z = z_of_tok (next t) in FAddInt (n, z)
  | "addid" -> let n = next_hex t in let v = next_hex t in FAddId (n, v)
  | "addtime" -> let n = next_hex t in let _ = next t in let s = next_hex t in FAddTime (n, s)
  | "set" -> let n = next_hex t in let v = next_hex t in FSet (n, v)
  | "setint" -> let n = next_hex t in let z = z_of_tok (next t) in FSetInt (n, z)
  | "setid" -> let n = next_hex t in let v = next_hex t in FSetId (n, v)
  | "settime" -> let n = next_hex t in let _ = next t in let s = next_hex t in FSetTime (n, s)
  | "delete" -> FDelete (next_hex t)
  | "sort" -> FSort
  | "get" -> FGet (next_hex t)
  | "getall" -> FGetAll (next_hex t)
  | "getint" -> FGetInt (next_hex t)
  | "getid" -> FGetId (next_hex t)
  | "has" -> FHas (next_hex t)
  | "write" -> FWrite
  | s -> failwith ("unknown field op " ^ s)

let show_fobs = function
  | ONone -> "-"
  | OStr s -> "s:" ^ hex s
  | OList l -> "l:" ^ String.concat "," (List.map hex l)
  | OInt None -> "i:err"
  | OInt (Some x) -> "i:" ^ tok_of_z x
  | OBool b -> if b then "b:1" else "b:0"


let run_fields t : string * string =
  let k = next_int t in
  let ops = List.init k (fun _ -> parse_fop t) in
  let show w (obs, fin) = String.concat ";" (List.map show_fobs obs) ^ "|" ^ hex (w fin) in
  (show m_write (frun field_table uni_lower [] ops), show s_write (srun reference_table uni_lower [] ops))


(* ---------- C14: spill buffer ---------- *)
let parse_sop t : sop =
  match next t with
  | "r" -> SRead (nat_of_int (next_int t))
  | "pk" -> SPeek (nat_of_int (next_int t))
  | "rb" | "rs" -> SReadBytes (n_of_int (next_int t))
  | "sk" -> SSeek0
  | "sz" -> SSize
  | s -> failwith ("unknown slice op " ^ s)
let parse_bop t : bop =
  match next t with
  | "w" | "ws" -> BWrite (next_hex t)
  | "rf" -> let d = next_hex t in let _ = next_int t in
            let ewd = next_int t = 1 in let serr = next_int t = 1 in BReadFrom (d, ewd, serr)
  | "r" -> BRead (nat_of_int (next_int t))
  | "pk" -> BPeek (nat_of_int (next_int t))
  | "rb" | "rs" -> BReadBytes (n_of_int (next_int t))
  | "sk" -> BSeek0
  | "sz" -> BSize
  | "sl" -> let o = next_int t in let l = next_int t in let k = next_int t in
            let sops = List.init k (fun _ -> parse_sop t) in
            BSlice (nat_of_int o, (if l <= 0 then None else Some (nat_of_int l)), sops)
  | s -> failwith ("unknown buffer op " ^ s)
let show_errc = function ENil -> "nil" | EEOF -> "eof" | EOther -> "err"
let rec show_bobs = function
  | ON (n, e) -> Printf.sprintf "n:%d:%s" (int_of_nat n) (show_errc e)
  | OData (d, e) -> Printf.sprintf "d:%s:%d" (hex d) (if e then 1 else 0)
  | OSize n -> Printf.sprintf "z:%d" (int_of_nat n)
  | OUnit -> "-"
  | OSlice l -> "[" ^ String.concat "," (List.map show_bobs l) ^ "]"
let run_spill t : string * string =
  let mmax = next_int t in
  let _hint = next_int t in
  let k = next_int t in
  let ops = List.init k (fun _ -> parse_bop t) in
  let show l = String.concat ";" (List.map show_bobs l) in
  (show (b_run (new_buf (nat_of_int mmax)) ops), show (p_run { content = []; poff = O } ops))


(* ---------- oracles for value syntax ---------- *)
let ask_bool kind (s : n list) : bool = ask (kind ^ " " ^ hex s) = "1"
let time_ok = ask_bool "time"
let ip_ok = ask_bool "ip"
let uri_ok = ask_bool "url"
let wid_ok = ask_bool "urlid"

(* ---------- C17: header validation ---------- *)
let policy_of_int = function 0 -> Ignore | 1 -> Warn | _ -> Fail
let show_kind = function
  | KMissingType -> "mt" | KUnknownType -> "ut" | KIllegal -> "il" | KValue -> "val" | KDup -> "dup"
  | KMissingReq -> "mr" | KMissingCT -> "ct" | KConcurrent -> "na"
  | KSyntax -> "syn" | KLength -> "len" | KDigest -> "dig" | KTrailer -> "trl" | KBlock -> "blk"
  | KVersion -> "ver" | KOffset -> "off" | KEOH -> "eoh" | KMarker -> "mrk" | KRead -> "read" | KFuel -> "FUEL" | KOther -> "other"
let show_findings fs = String.concat "," (List.map (fun (k, _) -> show_kind k) fs)
let run_validate t : string * string =
  let spec = next_int t in let unk = next_int t in let vid = next_int t in let k = next_int t in
  let hs = List.init k (fun _ -> let n = next_hex t in let v = next_hex t in (n, v)) in
  (* fields are added one by one through Add, which normalises the name *)
  let hs = List.map (fun (n, v) -> (normalize_name field_table uni_lower n, v)) hs in
  let r = validate_header field_table required_fields uni_lower time_ok ip_ok uri_ok wid_ok (policy_of_int spec) (policy_of_int unk) (n_of_int vid) hs [] in
  let m = match r with
    | Ok ((rt, hs'), fs) -> Printf.sprintf "ok;rt=%d;f=%s;h=%s" (int_of_n rt) (show_findings fs) (hex (m_write hs'))
    | Err ((k, _), fs) -> Printf.sprintf "err:%s;f=%s" (show_kind k) (show_findings fs) in
  let acc = spec_accepts reference_table reference_required uni_lower time_ok ip_ok uri_ok wid_ok (n_of_int vid) hs in
  let tacc = type_accepts uni_lower (policy_of_int unk) hs in
  let s = if spec = 0 then "-" else Printf.sprintf "acc=%d" (if acc && tacc then 1 else 0) in
  (m, s)


(* ---------- C19/C05/C08: header parser ---------- *)
let mime_dec (s : n list) : n list option =
  let a = ask ("mime " ^ hex s) in if a = "err" then None else Some (unhex a)
let show_kind_err k = match k with
  | KSyntax -> "syn" | KEOH -> "eoh" | KMarker -> "mrk" | KRead -> "read" | KFuel -> "FUEL" | KOther -> "other" | k -> show_kind k
let show_parse total r =
  match r with
  | Ok ((fs, rest), fnd) ->
    Printf.sprintf "nil;n=%d;f=%s;c=%d" (List.length fnd) (hex (m_write fs)) (total - List.length rest.sdata)
  | Err ((k, _), fnd) -> Printf.sprintf "%s;n=%d" (show_kind_err k) (List.length fnd)
let run_hparse t : string * string =
  let policy = policy_of_int (next_int t) in
  let tail = if next_int t = 1 then TErr else TEOF in
  let _chunk = next_int t in
  let data = next_hex t in
  let r = parse_fields field_table uni_lower mime_dec policy { sdata = data; stail = tail } [] in
  (show_parse (List.length data) r, "-")
let run_hapi t : string * string =
  let policy = policy_of_int (next_int t) in
  let k = next_int t in
  let fs = List.fold_left (fun acc _ -> let n = next_hex t in let v = next_hex t in m_add field_table uni_lower n v acc) [] (List.init k (fun i -> i)) in
  let text = serialize fs in
  let r = parse_fields field_table uni_lower mime_dec policy { sdata = text; stail = TEOF } [] in
  let m = match r with
    | Ok ((fs2, _), fnd) -> Printf.sprintf "nil;n=%d;f=%s" (List.length fnd) (hex (m_write fs2))
    | Err ((k, _), fnd) -> Printf.sprintf "%s;n=%d" (show_kind_err k) (List.length fnd) in
  (m, "-")


(* ---------- digests ---------- *)
let alg_of_string = function "md5" -> MD5 | "sha1" -> SHA1 | "sha256" -> SHA256 | _ -> SHA512
let alg_to_string = function MD5 -> "md5" | SHA1 -> "sha1" | SHA256 -> "sha256" | SHA512 -> "sha512"
let enc_of_int = function 1 -> Base16 | 2 -> Base32 | 3 -> Base64 | _ -> EUnknown
let hash_oracle (a : alg) (s : n list) : n list = unhex (ask ("hash " ^ alg_to_string a ^ " " ^ hex s))
let opt_dec kind (s : n list) : n list option =
  let a = ask (kind ^ " " ^ hex s) in if a = "err" then None else Some (unhex a)
let b32dec = opt_dec "b32dec"
let b64dec = opt_dec "b64dec"
let uni_upper (s : n list) : n list = unhex (ask ("upper " ^ hex s))
let fmt_digest alg e (x : n list) : n list =
  match new_digest uni_lower uni_upper (bytes_of_str alg) e with
  | Some d -> format hash_oracle (feed d x)
  | None -> bytes_of_str "UNSUPPORTED"

(* ---------- C16: block accessors ---------- *)
let drain_of_int k = if k < 0 then None else Some (nat_of_int k)
let parse_aop t : aop =
  match next t with
  | "raw" -> ARaw (drain_of_int (next_int t))
  | "pay" -> APayload (drain_of_int (next_int t))
  | "bd" -> ABlockDigest | "pd" -> APayloadDigest | "size" -> ASize | "cache" -> ACache | "isc" -> AIsCached
  | s -> failwith ("unknown accessor " ^ s)
let show_aobs = function
  | RData d -> "d:" ^ hex d | RErr -> "err" | RStr s -> "s:" ^ hex s
  | RNum k -> Printf.sprintf "n:%d" (int_of_nat k) | RBool b -> if b then "b:1" else "b:0" | RUnit -> "-"
let run_block t : string * string =
  let _kind = next t in let cached = next_int t = 1 in let alg = next t in let e = enc_of_int (next_int t) in
  let _maxmem = next_int t in let head = next_hex t in let body = next_hex t in let k = next_int t in
  let ops = List.init k (fun _ -> parse_aop t) in
  let f = fmt_digest alg e in
  let show l = String.concat ";" (List.map show_aobs l) in
  (show (block_run f f (fresh head body cached) ops),
   show (spec_run f f { s_head = head; s_body = body; s_cached = cached; s_used = false } ops))


(* ---------- record level: options, observations ---------- *)
let http_ok kind (s : n list) : bool = ask (kind ^ " " ^ hex s) = "1"
let read_opts t : opts * int (* vid *) * int (* thr *) =
  let syntax = policy_of_int (next_int t) in let spec = policy_of_int (next_int t) in
  let unknown = policy_of_int (next_int t) in let block = policy_of_int (next_int t) in
  let skip = next_int t = 1 in
  let addid = next_int t = 1 in let addcl = next_int t = 1 in let adddig = next_int t = 1 in
  let fixcl = next_int t = 1 in let fixdig = next_int t = 1 in let fixsyn = next_int t = 1 in let fixwf = next_int t = 1 in
  let alg = bytes_of_str (next t) in let e = enc_of_int (next_int t) in
  let vid = next_int t in let thr = next_int t in
  ({ o_syntax = syntax; o_spec = spec; o_unknown = unknown; o_block = block; o_skip_parse = skip;
     o_add_id = addid; o_add_cl = addcl; o_add_digest = adddig; o_fix_cl = fixcl; o_fix_digest = fixdig;
     o_fix_syntax = fixsyn; o_fix_wfblock = fixwf; o_alg = alg; o_enc = e }, vid, thr)
let show_bkind = function BGeneric -> "g" | BHttpReq -> "q" | BHttpResp -> "s" | BWarcFields -> "w" | BRevisit -> "v"
let show_kinds fs = String.concat "," (List.map (fun (k, _) -> show_kind_err k) fs)
let show_rec (r : record) fnd =
  Printf.sprintf "v=%s;t=%d;f=%s;h=%s;b=%s;k=%s" (hex r.r_vtxt) (int_of_n r.r_type) (show_kinds fnd)
    (hex (m_write r.r_fields)) (hex (raw_bytes r.r_block)) (show_bkind r.r_block.bk)
let m_build o vid rt hs content id =
  build field_table required_fields uni_lower uni_upper time_ok ip_ok uri_ok wid_ok mime_dec hash_oracle b32dec b64dec
    (http_ok "httpreq") (http_ok "httpresp") o vid rt hs content id
let run_build t : string * string =
  let (o, vid, _thr) = read_opts t in
  let rt = next_int t in let nf = next_int t in
  let hs = List.fold_left (fun acc _ -> let n = next_hex t in let v = next_hex t in m_add field_table uni_lower n v acc) [] (List.init nf (fun i -> i)) in
  (* NewRecordBuilder sets WARC-Type first *)
  let hs0 = if rt <> 0 then m_set field_table uni_lower (bytes_of_str "WARC-Type") (bytes_of_str (match rt with 1 -> "warcinfo" | 2 -> "response" | 4 -> "resource" | 8 -> "request" | 16 -> "metadata" | 32 -> "revisit" | 64 -> "conversion" | 128 -> "continuation" | _ -> "unknown")) [] else [] in
  let hs = hs0 @ hs in
  let nfe = next_int t in
  let content = List.concat (List.init nfe (fun _ -> let _ = next t in next_hex t)) in
  let (r, _) = m_build o (n_of_int vid) (n_of_int rt) hs content (bytes_of_str "urn:uuid:11111111-2222-3333-4444-555555555555") in
  let m = match r with
    | Ok (rc, fnd) -> "ok;" ^ show_rec rc fnd
    | Err ((k, _), fnd) -> Printf.sprintf "err:%s;f=%s" (show_kind_err k) (show_kinds fnd) in
  (m, "-")


(* ---------- unm: sequential reading ---------- *)
let show_ures (off : int) (u : uresult) : string =
  match u with
  | URec (r, None, fnd, _) -> Printf.sprintf "off=%d:rec;%s" off (show_rec r fnd)
  | URec (_, Some (k, _), fnd, _) -> Printf.sprintf "off=%d:recerr:%s;f=%s" off (show_kind_err k) (show_kinds fnd)
  | UNone ((k, _), fnd) -> Printf.sprintf "off=%d:none:%s;f=%s" off (show_kind_err k) (show_kinds fnd)
let m_read_plain o s =
  read_all_plain field_table required_fields uni_lower uni_upper time_ok ip_ok uri_ok wid_ok mime_dec hash_oracle b32dec b64dec
    (http_ok "httpreq") (http_ok "httpresp") (nat_of_int 40) o s O
let m_read_gz o items =
  read_all_gz field_table required_fields uni_lower uni_upper time_ok ip_ok uri_ok wid_ok mime_dec hash_oracle b32dec b64dec
    (http_ok "httpreq") (http_ok "httpresp") (nat_of_int 40) o items O
let run_unm t : string * string =
  let (o, _vid, _thr) = read_opts t in
  let res =
    if next t = "p" then begin
      let tail = if next_int t = 1 then TErr else TEOF in
      let _chunk = next_int t in
      let data = next_hex t in
      let l = m_read_plain o { sdata = data; stail = tail } in
      (* read errors inside the content region are outside the modelled domain *)
      let unmodelled = false in
      if unmodelled then None else Some (l, tail = TErr)
    end else begin
      let n = next_int t in
      let items = List.init n (fun _ ->
        match next t with
        | "j" -> GJunk (next_hex t)
        | "m" -> let p = next_hex t in let cut = next_int t in let pre = next_hex t in let cs = next_int t in
                 if cut < 0 then GMember (p, true, nat_of_int cs) else GMember (pre, false, nat_of_int cs)
        | "x" -> let cs = next_int t in let _ = next_int t in let _ = next_hex t in GBadMember (nat_of_int cs)
        | s -> failwith ("unknown item " ^ s)) in
      let l = m_read_gz o items in
      let abnormal = List.exists (function GMember (_, false, _) | GBadMember _ -> true | _ -> false) items in
      Some (l, abnormal)
    end in
  match res with
  | None -> ("-", "-")
  | Some (l, abnormal) ->
    (* a stream that ends in a read error (cut gzip member, failing reader): only the coarse
       outcome of the record that hits the error is modelled *)
    let show (off, u) = match u with
      | URec (_, None, _, _) -> show_ures (int_of_nat off) u
      | _ -> if abnormal then Printf.sprintf "off=%d:cut" (int_of_nat off) else show_ures (int_of_nat off) u in
    (* a gzip magic inside a plain stream hands over to the gzip library: not modelled *)
    let foreign = List.exists (function (_, UNone ((KOther, _), _)) -> true | _ -> false) l in
    if foreign then ("-", "-") else (String.concat "|" (List.map show l), "-")


(* ---------- C04/C13: the file writer ---------- *)
let default_opts = { o_syntax = Warn; o_spec = Warn; o_unknown = Warn; o_block = Ignore; o_skip_parse = false;
  o_add_id = true; o_add_cl = true; o_add_digest = true; o_fix_cl = true; o_fix_digest = true; o_fix_syntax = true;
  o_fix_wfblock = false; o_alg = bytes_of_str "sha1"; o_enc = Base32 }
let add_all hs l = List.fold_left (fun acc (n, v) -> m_add field_table uni_lower (bytes_of_str n) v acc) hs l
let built_record rt typ fields content id =
  let hs0 = m_set field_table uni_lower (bytes_of_str "WARC-Type") (bytes_of_str typ) [] in
  match fst (m_build default_opts (n_of_int 2) (n_of_int rt) (add_all hs0 fields) content (bytes_of_str id)) with
  | Ok (r, _) -> r
  | Err _ -> failwith "model: builder rejected a writer record"
let run_writer t : string * string =
  let max = next_int t in let compress = next_int t = 1 in let ratio = next t in
  let info = next_int t = 1 in let flush = next_int t = 1 in
  let dup = next_int t = 1 in
  let nrec = next_int t in
  let recs = List.init nrec (fun i ->
    let body = next_hex t in
    built_record 4 "resource"
      [("WARC-Date", bytes_of_str "2021-05-06T07:08:09Z"); ("Content-Type", bytes_of_str "application/octet-stream");
       ("WARC-Target-URI", bytes_of_str ("http://example.com/" ^ string_of_int i))]
      body (Printf.sprintf "urn:uuid:%08d-0000-0000-0000-000000000000" (i + 1))) in
  let nops = next_int t in
  let ops = List.init nops (fun _ ->
    match next t with
    | "r" -> WRotate
    | _ -> let k = next_int t in WWrite (List.init k (fun _ -> nat_of_int (next_int t)))) in
  let conf = { c_max = z_of_int max; c_compress = compress; c_warcinfo = info; c_flush = flush } in
  let name_of (k : nat) = bytes_of_str (Printf.sprintf "v-%04d.warc%s" (if dup then 1 else int_of_nat k + 1) (if compress then ".gz" else "")) in
  let scale (z : z) = z_of_tok (ask ("scale " ^ ratio ^ " " ^ tok_of_z z)) in
  let zsize (b : n list) = z_of_tok (ask ("gzsize " ^ hex b)) in
  let info_rec (name : n list) =
    let nm = str_of_bytes name in
    let k = int_of_string (String.sub nm 2 4) in
    built_record 1 "warcinfo"
      [("WARC-Date", bytes_of_str "2021-05-06T07:08:09Z"); ("WARC-Filename", name); ("Content-Type", bytes_of_str "application/warc-fields")]
      (bytes_of_str "software: verif\r\n") (Printf.sprintf "urn:uuid:99999999-0000-0000-0000-%012d" k) in
  let (st, resps) = w_run field_table uni_lower conf name_of scale zsize info_rec w_init recs ops in
  let st = w_close st in
  let show_resp r = Printf.sprintf "%s@%s+%s!%d" (str_of_bytes r.rs_name) (tok_of_z r.rs_off) (tok_of_z r.rs_n) (if r.rs_err then 1 else 0) in
  let ops_obs = List.map2 (fun o rs -> match o with WRotate -> "rotate" | WWrite _ -> "w:" ^ String.concat "," (List.map show_resp rs)) ops resps in
  let files = List.sort compare (List.map (fun f -> (str_of_bytes f.f_name, tok_of_z (fsize conf zsize f))) st.w_files) in
  let cbs = List.filter_map (function ECallback (n, sz, i) -> Some (Printf.sprintf "%s=%s=%s" (str_of_bytes n) (tok_of_z sz) (str_of_bytes i)) | _ -> None) st.w_effects in
  (String.concat ";" (ops_obs @ ["files:" ^ String.concat "," (List.map (fun (n, s) -> n ^ "=" ^ s) files); "cb:" ^ String.concat "," cbs]), "-")


(* ---------- C20: revisit / merge ---------- *)
let profile_of (p : n list) : profile_kind =
  match str_of_bytes p with
  | "http://netpreserve.org/warc/1.1/revisit/identical-payload-digest"
  | "http://netpreserve.org/warc/1.0/revisit/identical-payload-digest" -> PIdentical
  | "http://netpreserve.org/warc/1.1/revisit/server-not-modified"
  | "http://netpreserve.org/warc/1.0/revisit/server-not-modified" -> PNotModified
  | _ -> PUnknownProfile
let run_rev t : string * string =
  let (o, vid, _) = read_opts t in
  let rt = next_int t in let head = next_hex t in let payload = next_hex t in
  let profile = next_hex t in let date = next_hex t in let _via = next_int t in
  (* the original may declare its payload digest itself, correct but in its own spelling *)
  let spelling0 = (match t.rest with [] -> 0 | _ -> next_int t) in
  let spelling = spelling0 mod 10 in
  let truncated = if spelling0 >= 10 then [("WARC-Truncated", bytes_of_str "time")] else [] in
  let sum = hash_oracle SHA1 payload in
  let declared = match spelling with
    | 0 -> []
    | 1 -> [("WARC-Payload-Digest", bytes_of_str ("sha1:" ^ String.uppercase_ascii (str_of_bytes (hex_encode sum))))]
    | 2 -> [("WARC-Payload-Digest", bytes_of_str ("sha1:" ^ String.lowercase_ascii (str_of_bytes (b32_encode sum))))]
    | _ -> [("WARC-Payload-Digest", bytes_of_str ("SHA-1:" ^ str_of_bytes (b32_encode sum)))] in
  let typ = if rt = 2 then "response" else "request" in
  let hs0 = m_set field_table uni_lower (bytes_of_str "WARC-Type") (bytes_of_str typ) [] in
  let hs = add_all hs0 ([("WARC-Date", date); ("Content-Type", bytes_of_str "application/http"); ("WARC-Target-URI", bytes_of_str "http://example.com/x")] @ declared @ truncated) in
  match fst (m_build o (n_of_int vid) (n_of_int rt) hs (head @ payload) (bytes_of_str "urn:uuid:11111111-2222-3333-4444-555555555555")) with
  | Err _ -> ("BUILDERR", "-")
  | Ok (orig, _) ->
    match create_ref field_table uni_lower orig profile with
    | None -> ("REFERR", "-")
    | Some rf ->
      match to_revisit field_table uni_lower uni_upper hash_oracle profile_of o orig rf with
      | None -> ("rv:err", "-")
      | Some rev ->
        let show tag r = Printf.sprintf "%s:ok;t=%d;h=%s;b=%s;k=%s" tag (int_of_n r.r_type) (hex (m_write r.r_fields)) (hex (raw_bytes r.r_block)) (show_bkind r.r_block.bk) in
        let m = match merge field_table uni_lower rev orig true with
          | None -> "|mg:err"
          | Some mg -> "|" ^ show "mg" mg in
        (show "rv" rev ^ m, "-")


(* ---------- C15: resource ledger ---------- *)
let run_res t : string * string =
  let sc = next t in let kind = next t in let thr = next_int t in let size = next_int t in
  let _fault = next_int t in let _spec = next_int t in
  let head = if kind = "h" then 44 else 0 in
  let count l = List.length l in
  let step name (l, _) = Printf.sprintf "%s:t%d,f%d" name (count l) (count l) in
  match sc with
  | "builder-close" ->
    let st = builder_fill (nat_of_int thr) (nat_of_int (head + size)) O in
    (step "filled" st ^ Printf.sprintf ";closed:t%d,f%d" (count (close_all st)) (count (close_all st)), "-")
  | "build-close" ->
    let st = builder_fill (nat_of_int thr) (nat_of_int (head + size)) O in
    (step "built" st ^ Printf.sprintf ";closed:t%d,f%d" (count (close_all st)) (count (close_all st)), "-")
  | "parse-close" ->
    (* the parsed record's block is copied into a fresh buffer: the payload for HTTP blocks *)
    let st = unmarshal_res (nat_of_int thr) (nat_of_int size) O None in
    (step "parsed" st ^ Printf.sprintf ";closed:t%d,f%d" (count (close_all st)) (count (close_all st)), "-")
  | _ -> ("-", "-")


(* ---------- C09/C10: is the implementation's history a run of the protocol model? ----------
   The case line carries the scenario and, after "||", what the implementation did: the order
   in which calls started (+g) and returned (-g:result).  The model accepts the history when it
   has a run in which every call's steps lie between its two events and the result is the one
   observed.  The search keeps the set of model states compatible with the history so far and
   closes it under Protocol.succs (the extracted function proved equal to the step relation). *)
let conc_limit = 400000
exception Too_big
let run_conc t : string * string =
  let workers = next_int t in
  let _ = next t in let _ = next t in let _ = next t in let _ = next t in let _ = next t in let _ = next t in
  let ngo = next_int t in
  let scripts = Array.make ngo [||] in
  for g = 0 to ngo - 1 do
    let nops = next_int t in
    scripts.(g) <- Array.init nops (fun _ ->
      match next t with
      | "w" -> CWrite (nat_of_int (next_int t))
      | "r" -> CRotate
      | "c" -> CClose
      | x -> failwith ("conc op " ^ x))
  done;
  match t.rest with
  | "||" :: obs :: _ ->
    let hist =
      match List.filter (fun f -> String.length f > 5 && String.sub f 0 5 = "hist=") (String.split_on_char ';' obs) with
      | [h] -> Some (List.filter (fun e -> e <> "") (String.split_on_char ',' (String.sub h 5 (String.length h - 5))))
      | _ -> None in
    (match hist with
     | None -> ("ACCEPT", "-")
     | Some evs ->
       let norm (s : pstate) = { s with processed = []; written = []; log = [] } in
       let key (s : pstate) = Marshal.to_string s [Marshal.No_sharing] in
       let s0 = norm (init (List.init ngo (fun _ -> [])) (nat_of_int workers)) in
       let set : (string, pstate) Hashtbl.t ref = ref (Hashtbl.create 1024) in
       Hashtbl.replace !set (key s0) s0;
       let maxset = ref 1 in
       let close () =
         let stack = Stack.create () in
         Hashtbl.iter (fun _ s -> Stack.push s stack) !set;
         while not (Stack.is_empty stack) do
           let s = Stack.pop stack in
           List.iter (fun (_, s') ->
             let s' = norm s' in let k = key s' in
             if not (Hashtbl.mem !set k) then begin
               Hashtbl.replace !set k s'; Stack.push s' stack;
               if Hashtbl.length !set > conc_limit then raise Too_big
             end) (succs s)
         done;
         if Hashtbl.length !set > !maxset then maxset := Hashtbl.length !set in
       let remap f =
         let n = Hashtbl.create 1024 in
         Hashtbl.iter (fun _ s -> match f s with Some s' -> Hashtbl.replace n (key s') s' | None -> ()) !set;
         set := n in
       let upd_caller (s : pstate) g f =
         { s with callers = List.mapi (fun i c -> if i = g then f c else c) s.callers } in
       let pos = Array.make ngo 0 in
       let verdict = ref "" in
       (try
         List.iter (fun e ->
           if !verdict = "" then begin
             let body = String.sub e 1 (String.length e - 1) in
             if e.[0] = '+' then begin
               let g = int_of_string body in
               let op = scripts.(g).(pos.(g)) in
               remap (fun s -> Some (upd_caller s g (fun c -> { c with c_script = [op] })))
             end else begin
               let g, r = (match String.split_on_char ':' body with [a; b] -> (int_of_string a, b) | _ -> failwith "hist") in
               let op = scripts.(g).(pos.(g)) in
               pos.(g) <- pos.(g) + 1;
               let want = (match op, r with
                 | CWrite _, "n" -> [None]
                 | CWrite _, k -> [Some (nat_of_int (int_of_string k))]
                 | _, _ -> []) in
               close ();
               remap (fun s ->
                 let c = List.nth s.callers g in
                 if c.c_pc = CIdle && c.c_script = [] && c.c_results = want
                 then Some (upd_caller s g (fun c -> { c with c_results = [] })) else None);
               if Hashtbl.length !set = 0 then
                 verdict := Printf.sprintf "REJECT:no-model-run-returns-%s-to-goroutine-%d-at-%s" r g e
             end
           end) evs
       with Too_big -> verdict := "TOOBIG");
       if !verdict = "" then ("ACCEPT", "-") else if !verdict = "TOOBIG" then ("ACCEPT-UNEXPLORED", "-") else (!verdict, "-"))
  | _ -> ("-", "-")

(* ---------- main ---------- *)
let run_line (line : string) : string * string =
  let t = { rest = List.filter (fun s -> s <> "") (String.split_on_char ' ' line) } in
  match next t with
  | "fields" -> run_fields t
  | "spill" -> run_spill t
  | "validate" -> run_validate t
  | "hparse" -> run_hparse t
  | "hapi" -> run_hapi t
  | "block" -> run_block t
  | "build" -> run_build t
  | "unm" -> run_unm t
  | "writer" -> run_writer t
  | "rev" -> run_rev t
  | "res" -> run_res t
  | "conc" -> run_conc t
  | d -> failwith ("unknown domain " ^ d)

let () =
  let ic = open_in Sys.argv.(1) in
  let om = open_out Sys.argv.(2) in
  let os = open_out Sys.argv.(3) in
  (try
    while true do
      let line = input_line ic in
      let (m, s) = (try run_line line with
                    | Failure e -> ("DRIVER-ERROR " ^ e, "DRIVER-ERROR " ^ e)
                    | Stack_overflow -> ("DRIVER-ERROR stack", "DRIVER-ERROR stack")) in
      output_string om (m ^ "\n"); output_string os (s ^ "\n")
    done
  with End_of_file -> ());
  close_out om; close_out os;
  print_string "done\n"; flush stdout
