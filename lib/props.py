"""Per-property configuration of the checks (see DESIGN.md section 4)."""

def c18_classify(case, impl, model, spec):
    if 'PANIC' in impl:
        return 'panic'
    return 'differs-from-multimap'

PROPS = {}

PROPS['C18'] = dict(
    id='C18',
    domains=['fields'],
    n=dict(quick=1500, thorough=60000),
    theorems=[('Properties.C18', ['C18_fields_refine_multimap', 'C18_normalize_idempotent', 'C18_normalize_case_insensitive',
                                   'C18_set_one_value_at_first_position', 'C18_delete_removes_all', 'C18_sort_stable_by_name',
                                   'C18_serialization', 'C18_itoa_atoi'])],
    classify=c18_classify,
    rule='operation sequences on WarcFields (1..60 ops, names drawn from a small per-case pool of known/unknown/odd names in random letter case so that they collide; values from a pool plus random CR/LF-free bytes); distinct = distinct (observations, final state) of the implementation; non-trivial = at least one field present at the end or a getter returned data',
    nontrivial=lambda c, o: not o.endswith('|h') and not o.endswith('|'),
    stats=lambda c, o: ['ops:%d' % min(60, (int(c.split()[1]) // 10) * 10)] + (['sort'] if ' sort' in c else []) + (['set'] if ' set ' in c else []),
    level_text='Proved in Coq for every operation sequence of any length and every starting content: the model of the WarcFields methods (as written in warcfields.go, canonical names from the field table regenerated from /repo) returns exactly the observations and final content of a reference ordered multimap (C18_fields_refine_multimap); normalisation is idempotent and case-insensitive on token/known names; Set/Delete/Sort/serialization laws and the Itoa/Atoi round trip are separate theorems. The model is tied to the code by running the extracted model and the real WarcFields on the same seeded op sequences (all getters after every step, final String()).',
    level_note='Trusted: Coq kernel, extraction (ExtrOcamlBasic only), the field-table translator, the correspondence harness and its generator; sort.SliceStable is assumed stable (stdlib contract); strings.ToLower on non-ASCII names is an oracle. Names outside the RFC 7230 token alphabet are case-sensitive keys (Go canonicaliser), stated in the theorem.',
    assumptions=['sort.SliceStable is a stable sort (contract of the Go standard library)',
                 'strings.ToLower on names with non-ASCII bytes is an oracle (uni_lower)'],
)

def c14_classify(case, impl, model, spec):
    if 'PANIC' in impl:
        return 'panic'
    return 'differs-from-plain-buffer'

PROPS['C14'] = dict(
    id='C14',
    domains=['spill'],
    n=dict(quick=3000, thorough=150000),
    theorems=[('Properties.C14', ['C14_spill_refines_plain_buffer', 'C14_spill_refines_from_any_state', 'C14_spill_invariant_reachable', 'C14_end_of_data_contract'])],
    classify=c14_classify,
    rule='histories on diskbuffer.New(maxMem, hint): 1-4 Write/WriteString/ReadFrom calls (ReadFrom sources in chunks of 1..512 bytes, EOF with or after the last data, injected error), then up to 8 Read/Peek/ReadBytes/ReadString/Seek(0)/Size calls and slice views (bounded and unbounded) with their own read ops; threshold drawn from 1..total+2 so that it falls inside writes, lines and peek windows; every fifth case uses data up to 260 bytes per write; distinct = distinct implementation observation strings; non-trivial = at least one data-returning op',
    nontrivial=lambda c, o: 'd:h' in o,
    stats=lambda c, o: (['slice'] if ' sl ' in c else []) + (['readfrom'] if ' rf ' in c else []) + (['spilled'] if int(c.split()[1]) < 40 else ['mem-only']),
    level_text='Proved in Coq by refinement, for every operation history of any length, every data and every memory threshold >= 1: the model of diskbuffer (memory part, temp-file part created when memory fills, two-part reads with their EOF signalling, nil file buffer, bounded and unbounded slice views) returns exactly the bytes, counts, sizes and end-of-data signals of a plain byte list with a read offset; the spill invariant (nothing on disk while memory has room) holds in every reachable state; the EOF convention is shown to be a legal io.Reader behaviour. Model tied to the code by running both on seeded histories with the threshold at every position relative to the data.',
    level_note='Trusted: Coq kernel, extraction, harness/generator. Not modelled (covered by the correspondence run only): growth of the backing array and the size hint, the 100-byte chunking of line reads from the file part, the chunk sizes in which ReadFrom pulls from its source, the OS file position; maxTotalBytes is not exercised. WriteTo/ReadByte are outside the property.',
    assumptions=['os.File ReadAt/WriteAt/Seek+CopyN behave as a byte array', 'EOF convention: a read/peek of k bytes reports io.EOF exactly when fewer than k bytes were left (legal io.Reader behaviour, theorem C14_end_of_data_contract)'],
)

def c17_project(case, impl):
    """what the implementation says about acceptance, in the vocabulary of the specification"""
    f = case.split()
    spec = int(f[1])
    if impl.startswith('PANIC'):
        return 'PANIC'
    if spec == 0:
        return None
    if impl.startswith('err'):
        return 'acc=0'
    kinds = [k for k in impl.split(';f=')[1].split(';')[0].split(',') if k]
    if spec == 2:
        return 'acc=1'
    return 'acc=1' if all(k == 'ut' for k in kinds) else 'acc=0'

def c17_classify(case, impl, model, spec):
    if 'PANIC' in impl:
        return 'panic'
    return 'accepts-malformed' if spec == 'acc=0' else 'rejects-wellformed'

PROPS['C17'] = dict(
    id='C17',
    domains=['validate'],
    n=dict(quick=2000, thorough=100000),
    theorems=[('Properties.C17', ['C17_table_is_reference', 'C17_strict_accepts_iff_spec', 'C17_warn_returns_record_with_all_defects', 'C17_warn_findings_iff_strict_rejects', 'C17_no_defect_iff_accepted', 'C17_ignore_no_findings', 'C17_parser_under_warn_still_returns_the_record'])],
    classify=c17_classify,
    spec_project=c17_project,
    rule='(1) exhaustive: every known field x 9 record types (8 + unknown) x 3 versions (1.0, 1.1, unknown) x multiplicity {1,2} x {valid, invalid} value, policies alternating warn/fail = 5184 header sets; (2) seeded random header sets with missing mandatory fields, 0-4 extra fields with valid/invalid values, shuffled; (3) every header set strict rejects is also sent through the parser under warn, which must return the record (warn-drops-record); distinct = distinct implementation observations; non-trivial = validation went past the record-type resolution',
    nontrivial=lambda c, o: not o.startswith('err:mt') and not o.startswith('err:ut'),
    stats=lambda c, o: ['spec:%s' % c.split()[1], o.split(';')[0].split(':')[0]] + (['finding:' + k for k in set(o.split(';f=')[1].split(';')[0].split(',')) if k] if ';f=' in o else []),
    level_text='Proved in Coq for every header set WarcFields can hold (canonical names), every WARC version id, every setting of the unknown-type axis and every behaviour of the value-syntax oracles: strict validation accepts exactly when the property\'s conditions hold (C17_strict_accepts_iff_spec); under warn the record is returned and the findings are exactly the list of defects, so exactly the rejected header sets produce findings (C17_warn_*); ignore produces none. For the parser as a whole (C17_parser_under_warn_still_returns_the_record): with the spec policy at warn and the unknown-type policy not at fail a record is withheld only when the version line or the header section cannot be read (end of input, read error, a syntax error the syntax policy rejects); otherwise a record comes back whatever validation finds. The field table the model runs on is regenerated from headerfielddef.go on every run and proved equal to the hand-transcribed reference table (C17_table_is_reference); the executable specification is evaluated over the reference table. Model tied to validateHeader by an exhaustive field x type x version x multiplicity x valid/invalid sweep plus random multi-defect header sets.',
    level_note='Trusted: Coq kernel, extraction, the field-table translator (go/ast), harness. Oracles: time.Parse(RFC3339), net.ParseIP, whatwg-url parsing, strings.ToLower on non-ASCII. "Well-formed" for time/IP/URI IS the oracle; integers and bracketed ids are modelled exactly. The reference table is the pinned table, not ISO 28500 (not available offline). Findings are compared by coarse kind derived from the error text.',
    assumptions=['header sets are canonical (every name went through WarcFields.Add)', 'reference table = the table at the pinned commit'],
)

PROPS['C19'] = dict(
    id='C19',
    domains=['hparse', 'hapi'],
    n=dict(quick=dict(hparse=3000, hapi=1500), thorough=dict(hparse=150000, hapi=50000)),
    theorems=[('Properties.C19', ['C19_clean_fields_survive_serialize_then_parse', 'C19_added_token_fields_are_clean', 'C19_fixpoint_refuted', 'C19_parsed_fields_are_clean', 'C19_one_parse_reaches_the_fixpoint'])],
    rule='hparse: header sections assembled from a pool of lines (valid, folded, bare LF, CR CR LF, missing colon, empty name, MIME encoded-words incl. ones decoding to CR LF or to another encoded-word, non-ASCII, control bytes), random line ends, byte flips and truncation, 3 syntax policies, EOF or injected read error after the data, source chunkings 0/1/3/64; every 40th case is a 9 KB well-formed section whose line ends sweep bufio\'s 4096-byte boundary. hapi: field sets built with Add from token names and CR/LF-free values (incl. edge blanks, NBSP, encoded-words), serialized and parsed. Executable statement evaluated on the implementation for every accepted input: parse(serialize(parse x)) = parse x with no findings. distinct = distinct implementation observations; non-trivial = the parser returned fields',
    nontrivial=lambda c, o: o.startswith('nil'),
    stats=lambda c, o: [c.split()[0] + ':' + o.split(';')[0], 'policy:' + c.split()[1]],
    level_text='Proved in Coq at full strength for input without RFC 2047 encoded-words: for every byte stream with no =? in it, every policy and every tail condition, if the header parser accepts a header section then every field it returns is well formed (canonical name, no colon or LF in the name, no LF in the value, no blank at either edge, no encoded-word marker) - by induction over the parser loop, folded lines and junk lines included - and therefore serialising the parsed fields and parsing the result again, under any policy and followed by anything, returns exactly the same fields and adds no finding (C19_one_parse_reaches_the_fixpoint); no parsed value can introduce additional fields or line breaks. With encoded-words the statement is REFUTED in the faithful model (C19_fixpoint_refuted, witness replayed on the implementation: known finding encoded-word); API-built values with edge blanks are the second known finding (trimmed-value).',
    level_note='Trusted: Coq kernel, extraction, harness. Oracle: mime.WordDecoder.DecodeHeader for lines containing "=?" (Go\'s identity fast path for other lines is modelled); strings.ToLower on non-ASCII names. bufio.Reader is abstracted to remaining bytes + a persistent EOF/error tail; its internal 4096-byte chunking is exercised by the generator (9 KB sections sweeping the boundary) but not modelled. Reading of the text: the blank line belongs to the marshaler, an empty field list serializes to the empty string.',
    assumptions=['bufio.Reader.ReadBytes/Peek behave as on an unbounded byte list with a persistent tail condition'],
)

PROPS['C16'] = dict(
    id='C16',
    domains=['block'],
    n=dict(quick=3000, thorough=150000),
    theorems=[('Properties.C16', ['C16_accessors_answer_from_the_complete_block', 'C16_digests_and_size_describe_the_complete_block', 'C16_cached_readers_start_at_the_first_byte', 'C16_uncached_reaccess_is_an_explicit_error'])],
    classify=lambda c, i, m, s: 'panic' if 'PANIC' in i else 'accessor-order-dependent',
    rule='accessor sequences (1-8 calls of RawBytes/PayloadBytes with drain none/partial/full, BlockDigest, PayloadDigest, Size, Cache, IsCached) on blocks constructed as parseBlock does (generic, HTTP request/response, warc-fields, revisit), from a seekable spill buffer (builder) or a one-shot stream (parser), 4 algorithms x 3 encodings, spill thresholds from 1 byte to above the block size; distinct = distinct implementation observations; non-trivial = at least one data or digest observation',
    nontrivial=lambda c, o: 'd:h' in o or 's:h' in o,
    stats=lambda c, o: ['kind:' + c.split()[1], 'cached:' + c.split()[2]] + (['reaccess-error'] if 'err' in o else []),
    level_text='Proved in Coq by refinement with an invariant, for every protocol header, payload, cached/uncached source and accessor sequence of any length: the content-access state machine of generic and HTTP blocks (digesting first reader, frozen digest strings, seek-to-start readers, Cache) gives exactly the answers of a specification that is a function of the complete block: digests and size of the whole block, readers of cached blocks from the first byte, the explicit error on re-access of an uncached block. Model tied to block.go/httpblock.go by constructing blocks as parseBlock does (white-box) from seekable and one-shot sources and running the same accessor sequences; digest texts are computed by the Digest model with hashes from Python hashlib.',
    level_note='Trusted: Coq kernel, extraction, harness. Readers are drained (fully, partly, not at all) before the next accessor call - a reader kept and used after a later call is outside the statement. warc-fields and revisit blocks are constant blocks (checked by correspondence as cached blocks; PayloadDigest of a revisit block is a stored string and is exercised in C20). Hash functions and base32/64 decoders are oracles.',
    assumptions=['readers are drained to the stated extent before the next accessor call'],
)

def c02_extra(tier, seed, work):
    import subprocess, os, re, vcheck
    n = 4000 if tier == 'quick' else 200000
    out = subprocess.run([os.path.join(vcheck.BUILD, 'harness'), 'ids', str(n), '8'], stdout=subprocess.PIPE, text=True, env=vcheck.GOENV).stdout
    m = re.search(r'ids total=(\d+) malformed=(\d+) repeated=(\d+)', out)
    viol = []
    if not m:
        viol.append(dict(kind='bad-record-id', case='ids %d 8' % n, detail='id generation run failed: ' + out[-200:], domain='ids'))
    elif int(m.group(2)) or int(m.group(3)):
        viol.append(dict(kind='id-repeats' if int(m.group(3)) else 'bad-record-id', case='ids %d 8' % n, detail=out.strip(), domain='ids'))
    return dict(violations=viol, evaluations=n, coverage=dict(generated_ids=n, id_run=out.strip()))

PROPS['C02'] = dict(
    extra=c02_extra,
    id='C02',
    domains=['build'],
    n=dict(quick=3000, thorough=120000),
    theorems=[('Properties.C02', ['C02_digests_are_computed_over_the_serialized_bytes', 'C02_format_is_hash_of_fed_bytes', 'C02_base16_round_trip', 'C02_record_id_is_bracketed', 'C02_built_record_is_truthful'])],
    kinds={'panic', 'untruthful-length', 'untruthful-block-digest', 'untruthful-payload-digest', 'bad-record-id', 'stale-length-after-wfblock-repair', 'id-repeats'},
    rule='build: builder runs over 27 policy triples x block policy x skip-parse-block x add/fix flags x 4 algorithms x 3 encodings x both versions, all record types, generic/HTTP (incl. missing terminator, unparsable start line)/warc-fields (incl. malformed) contents, 1-3 feeds by Write/WriteString/ReadFrom(7-byte chunks), thresholds 1..size+1, supplied or missing id/length/digest; executable statement: added Content-Length = bytes serialized, added digests = independently computed digests (Go crypto) of block and payload, id bracketed; extra: 4000 ids from 8 goroutines distinct and well-formed',
    level_text='Proved in Coq end to end (C02_built_record_is_truthful): for every option setting with the add-missing options on, every error-policy setting, record type, canonical header set that leaves length and digests to the builder, and every content, if Build returns a record then its Content-Length field is the decimal text of the exact number of block bytes that get serialized (also when the HTTP header repair adds CRLF), its WARC-Block-Digest is algorithm:encoding(hash of exactly those bytes) for the configured algorithm and encoding, and for HTTP blocks its WARC-Payload-Digest is the same over exactly the bytes after the HTTP header. Also: digests are fed exactly the serialized block for every option setting; base16 decodes back in either case; the generated id is bracketed. "However fed, wherever the threshold falls" is discharged by C14. Excluded by hypothesis and recorded as known finding: the warc-fields block repair (stale length). PARTIAL only in: uniqueness of generated ids is probabilistic (uuid.New) and tested, not proved',
    level_note='Trusted: Coq kernel, extraction (ExtrOcamlBasic), harness and generators. Oracles: hash functions (Python hashlib), base32/base64 decoders, mime.WordDecoder, net/http header parsing, whatwg-url, net.ParseIP, time.Parse, Unicode case mapping; klauspost gzip (a member is its payload; a cut member yields a payload prefix then io.ErrUnexpectedEOF). bufio.Reader is remaining bytes + a persistent tail condition. Findings are compared by coarse kind derived from error texts. Known finding: with WithFixWarcFieldsBlockErrors(true) under spec ignore the rewritten warc-fields block leaves a stale Content-Length.',
    assumptions=[],
)

PROPS['C05'] = dict(
    id='C05',
    domains=['unm', 'hparse', 'build'],
    n=dict(quick=dict(unm=2500, hparse=1500, build=1000), thorough=dict(unm=100000, hparse=50000, build=40000)),
    theorems=[('Properties.C05', ['C05_header_parser_terminates_and_only_consumes', 'C05_read_line_makes_progress', 'C05_record_start_search_does_not_depend_on_fuel', 'C05_http_header_split_does_not_depend_on_fuel'])],
    kinds={'panic', 'hang', 'no-progress', 'memory', 'crash'},
    rule='unm: plain and per-record-gzip streams from 1-3 generated records with byte flips, truncation, dropped trailers, junk, wrong and hostile (2^62, 2^63-1) lengths, bare-LF line ends, odd versions, EOF or injected read error, source chunkings 0/1/5/100, cut gzip members (every item stream read to the first error through WarcFileReader under a watchdog, with allocation measured); hparse: header sections incl. 9 KB ones; build: arbitrary content and headers. Executable statement: no panic, no crash, return within 5 s, allocation <= 48 MB + 200 x input, every Next consumes input or errors',
    level_text='PARTIAL by nature (time and heap are runtime quantities). Proved in Coq: the header parser (used for record headers and warc-fields blocks) never exhausts fuel = input length + 2 on any input, tail condition, policy and decoder behaviour, and never leaves more of the stream than it was given; every line read consumes at least one byte or reports the end. "No panic" holds in the model by construction (total functions, no panic outcome) and every unguarded index/type assertion/nil dereference the correspondence run hit in the real parser was repaired (6 fix commits). Observed, not proved: wall-clock time, allocation, process crashes (watchdog, MemStats, crash-robust runner).',
    level_note='Trusted: Coq kernel, extraction (ExtrOcamlBasic), harness and generators. Oracles: hash functions (Python hashlib), base32/base64 decoders, mime.WordDecoder, net/http header parsing, whatwg-url, net.ParseIP, time.Parse, Unicode case mapping; klauspost gzip (a member is its payload; a cut member yields a payload prefix then io.ErrUnexpectedEOF). bufio.Reader is remaining bytes + a persistent tail condition. Findings are compared by coarse kind derived from error texts. The model of Unmarshal outside the header parser has no loops except the junk search (fuel = stream length + 1).',
    assumptions=[],
)

PROPS['C01'] = dict(
    id='C01',
    domains=['rt', 'unm', 'build'],
    no_model={'rt': True},
    n=dict(quick=dict(rt=2500, unm=800, build=600), thorough=dict(rt=120000, unm=40000, build=30000)),
    theorems=[('Properties.C01', ['C01_header_section_round_trips', 'C01_block_framing_ignores_block_content', 'C01_marker_is_accepted_and_consumed', 'C01_marshal_layout', 'C01_marshal_then_parse_returns_the_record', 'C01_strictly_built_header_is_accepted_under_every_policy', 'C01_strictly_built_record_round_trips_without_digests', 'C01_strictly_built_record_round_trips', 'C01_base16_meets_the_codec_contract', 'C01_base32_and_base64_meet_the_codec_contract', 'C01_gzip_member_round_trip'])],
    kinds={'panic', 'roundtrip-lossy', 'remarshal-differs', 'policy-incoherent', 'trimmed-value'},
    rule='rt: 1-5 records accepted by the strict builder (all record types incl. unknown, both versions, generic/HTTP/warc-fields blocks with delimiter-imitating content, unknown fields with odd but clean values), built under a random policy, marshaled, concatenated plain or as gzip members, read back through ONE WarcFileReader under another policy (2/3 strict) with the same add/repair flags, compared (version, type, ordered fields, block) and marshaled again; spill thresholds around the block size; unm/build: model correspondence. distinct = distinct implementation observations',
    level_text='Proved in Coq end to end. Reader side (C01_marshal_then_parse_returns_the_record): for every record that is valid for the reader (version 1.0/1.1, well-formed header fields that validate with no finding, truthful Content-Length, block that parses to itself, digests absent or valid), every following byte sequence and stream tail, under every policy setting, parsing the marshalled form returns exactly that record (version, type, ordered fields, block), no finding, and leaves exactly the following bytes - so blocks imitating CRLFCRLF or WARC/1.1 cannot confuse framing. Builder side (C01_strictly_built_record_round_trips): whatever the strict builder returns - clean header fields, ANY content, length and digest fields left to its add-missing options - is such a valid record for EVERY reader policy, hence is read back from its serialization as exactly that record with no error and no finding. The theorem states what it needs from the digest text codec as a contract (the text written for a digest is read back by newDigest, under any default encoding of the reader, as a digest whose declared hash validates against the same bytes, and is a clean header value); the contract is proved for base16 and every supported algorithm for any hash function returning alg_size bytes (C01_base16_meets_the_codec_contract), and for base32 and base64 - whose encoders are modelled: recognition lengths, the trailing = of md5 texts, alphabets untouched by case mapping and header parsing - under the one assumption that the oracle decoders of the Go standard library invert the encoders on the hash values that occur (C01_base32_and_base64_meet_the_codec_contract); without digest fields no contract is needed (C01_..._without_digests). Two hypotheses the proof forced: the record type given to the builder is 0 or the one its WARC-Type field names (a defect found this way: Build did not adopt a type given only as header field; repaired, fix 71854e8), and the block policy is the one axis with a side condition (the builder rejects block problems or the reader ignores them; reading choice, DESIGN 0.6). Through the per-record gzip container at item level (a whole member whose payload is the serialized record) the same record comes back (C01_gzip_member_round_trip). PARTIAL in: the base32/base64 decoders (oracles assumed to invert the modelled encoders) and the compressed bytes of the gzip container (an oracle); re-marshalling equality follows in the model from record equality and is evaluated on the implementation. All of these are evaluated by the executable statement (build, marshal plain or gzip, parse under another policy, compare, marshal again)',
    level_note="Trusted: Coq kernel, extraction (ExtrOcamlBasic), harness and generators. Oracles: hash functions (Python hashlib), base32/base64 decoders, mime.WordDecoder, net/http header parsing, whatwg-url, net.ParseIP, time.Parse, Unicode case mapping; klauspost gzip (a member is its payload; a cut member yields a payload prefix then io.ErrUnexpectedEOF). bufio.Reader is remaining bytes + a persistent tail condition. Findings are compared by coarse kind derived from error texts. Reading of the text: the reader runs with the builder's add-missing/repair flags; values with edge blanks are a recorded known finding (trimmed), values with encoded-words are outside the property.",
    assumptions=[],
)

PROPS['C03'] = dict(
    id='C03',
    domains=['ver', 'build', 'unm'],
    no_model={'ver': True},
    n=dict(quick=dict(ver=3000, build=800, unm=800), thorough=dict(ver=150000, build=40000, unm=40000)),
    theorems=[('Properties.C03', ['C03_fail_reports_wrong_length', 'C03_fail_reports_wrong_block_digest', 'C03_warn_reports_and_returns', 'C03_correct_values_are_never_reported', 'C03_ignore_reports_nothing', 'C03_base16_case_insensitive', 'C03_fail_reports_wrong_payload_digest', 'C03_warn_repairs_length_and_block_digest', 'C03_warn_repairs_payload_digest', 'C03_true_digest_is_accepted_in_every_encoding_and_case', 'C03_repaired_text_is_the_digest_of_the_fed_bytes'])],
    kinds={'panic', 'unreported', 'false-report', 'repair-untruthful', 'resource-payload-digest'},
    rule='ver: builder and parser path, generic/HTTP/warc-fields/revisit blocks, declared Content-Length correct/shorter/longer, block and payload digests in every algorithm x encoding x letter case x name spelling (sha1, SHA1, sha-1), correct or corrupted at a random position; expectation computed independently (Go crypto + stdlib decoders, encoding-agnostic); warn and fail; repairs checked under warn',
    level_text='Proved in Coq about ValidateDigest (the same function on the builder and parser path): under fail a disagreeing length, then a disagreeing block digest, then a disagreeing payload digest (HTTP payload; whole block of a resource record) is the error; under warn they are findings and the record is returned; correct declared values are never reported under any policy (soundness); ignore reports nothing; the text of the true digest - hex in lower or upper case, base32 in upper or lower case, base64 - is read by newDigest for every supported algorithm and every default encoding as a digest that does not disagree with the bytes (C03_true_digest_is_accepted_in_every_encoding_and_case; the base32/base64 decoders are oracles assumed to invert the modelled encoders); and the last sentence: with the repair options on under warn, a declared Content-Length afterwards is the decimal text of the true block length, and a declared block digest / payload digest that disagreed is afterwards algorithm:encoding(hash of exactly the bytes of the block / payload) (C03_warn_repairs_*). The defect that resource records never had their payload digest verified was found by this check and repaired.',
    level_note='Trusted: Coq kernel, extraction (ExtrOcamlBasic), harness and generators. Oracles: hash functions (Python hashlib), base32/base64 decoders, mime.WordDecoder, net/http header parsing, whatwg-url, net.ParseIP, time.Parse, Unicode case mapping; klauspost gzip (a member is its payload; a cut member yields a payload prefix then io.ErrUnexpectedEOF). bufio.Reader is remaining bytes + a persistent tail condition. Findings are compared by coarse kind derived from error texts. "Disagrees" is at the level of decoded bytes; the base32/base64 decoders are oracles.',
    assumptions=[],
)

PROPS['C06'] = dict(
    id='C06', domains=['trunc', 'unm'], no_model={'trunc': True},
    n=dict(quick=dict(trunc=120, unm=1500), thorough=dict(trunc=1500, unm=60000)),
    theorems=[('Properties.C06', ['C06_complete_header_section_survives_any_remainder', 'C06_cut_at_the_end_of_record_marker_is_reported', 'C06_complete_marker_is_accepted', 'C06_complete_records_before_the_cut_survive', 'C06_cut_inside_block_or_marker_is_visible', 'C06_every_cut_of_a_record_is_visible', 'C06_gzip_whole_members_before_the_cut_survive', 'C06_gzip_cut_member_is_never_a_clean_record'])],
    kinds={'panic', 'hang', 'wellformed-file-not-clean', 'complete-record-lost', 'partial-record-clean', 'truncation-invisible'},
    rule='trunc: well-formed files of 1-3 records (all block kinds, plain or per-record gzip), read under warn or strict: 50 seeded cut positions plus 19 positions around every record boundary per file (thorough: EVERY cut position): records wholly inside the prefix come back unaltered, clean and at the same offsets; nothing clean after them; a cut inside a record is visible (non-EOF error, finding, or EOF offset < prefix length); unm: model correspondence incl. cut gzip members',
    level_text='Proved in Coq. Plain files: (survival) for every sequence of valid records followed by ANY remainder and any stream tail, sequential reading returns exactly those records, clean and at their offsets, then continues on the remainder; (visibility) for every valid record and EVERY cut position - magic bytes, version line, header section, block, end-of-record marker - reading the non-empty proper prefix under a spec policy of warn or fail never yields a record that is clean and without findings (C06_every_cut_of_a_record_is_visible; the header case rests on: for any input a successful header parse that leaves input unread has seen an empty line, and a proper prefix of the serialisation of well-formed fields has none). Per-record gzip files, at the abstraction level of the model (the decompressor is an oracle: a file is a list of members given by what they decompress to and whether they are whole): whole members holding valid records are returned as those records at their compressed offsets whatever follows, and a member cut anywhere is never returned as a clean record. PARTIAL only in what the model cannot exhibit: the decompressor itself (observed on the implementation for sampled / all cut positions of plain and gzip files)',
    level_note='Trusted: Coq kernel, extraction (ExtrOcamlBasic), harness and generators. Oracles: hash functions (Python hashlib), base32/base64 decoders, mime.WordDecoder, net/http header parsing, whatwg-url, net.ParseIP, time.Parse, Unicode case mapping; klauspost gzip (a member is its payload; a cut member yields a payload prefix then io.ErrUnexpectedEOF). bufio.Reader is remaining bytes + a persistent tail condition. Findings are compared by coarse kind derived from error texts. A cut exactly at a record boundary leaves a well-formed file and is not required to be visible.',
    assumptions=[],
)
PROPS['C07'] = dict(
    id='C07', domains=['pol', 'unm', 'validate'], no_model={'pol': True},
    n=dict(quick=dict(pol=2500, unm=1000, validate=300), thorough=dict(pol=100000, unm=40000, validate=20000)),
    theorems=[('Properties.C07', ['C07_header_validation_keeps_every_field', 'C07_digest_verification_changes_nothing_with_repairs_off', 'C07_clean_record_carries_a_block_of_the_declared_length', 'C07_two_policy_settings_return_the_same_record', 'C07_repairs_touch_only_the_length_and_digest_fields'])],
    kinds={'panic', 'block-shortened', 'short-stream-under-ignore', 'policy-changes-header', 'policy-changes-block', 'value-destroyed'},
    rule='pol: streams with invalid field values, illegal fields, wrong lengths (shorter, longer, non-canonical spelling) and digests, bare-LF line ends, plain or gzip, read under two policy settings with repairs all-off or default: header fields and block bytes equal (repairs off) or differing only in Content-Length / digest fields / appended CRLF (repairs on); every returned record delivers its declared block or an error/finding; unm/validate: model correspondence',
    level_text='Proved in Coq: for the WHOLE parser on plain streams, with the add-missing and repair options off, any two policy settings that both return a record without error return the same record - version, type, header fields and values, block bytes - and the same rest of the stream (C07_two_policy_settings_return_the_same_record; both agree with the all-ignore run, which cannot be the one that errs because rejection is monotone); stage facts: header validation under ignore and warn returns exactly the header fields it was given, whatever is wrong with them (the defect that warn replaced invalid values by the empty string was found here and repaired); with the add/repair options off, length and digest verification never changes a header field under any policy; with them on, under every option setting and policy, it leaves the value of every header field other than Content-Length, WARC-Block-Digest and WARC-Payload-Digest as it was (C07_repairs_touch_only_the_length_and_digest_fields); and the block clause: for every stream and option setting with the spec policy above ignore, a record that the parser returns with no error and no finding has a block of exactly the declared length - never silently empty or shortened (C07_clean_record_carries_a_block_of_the_declared_length). With the spec policy at ignore the length check is off and a stream that ends early goes unnoticed: that is the known finding short-stream-under-ignore (the defect that spec ignore drained the block was found here and repaired). Equality of header values and block bytes across policies with repairs off is additionally evaluated on the implementation (domain pol).',
    level_note='Trusted: Coq kernel, extraction (ExtrOcamlBasic), harness and generators. Oracles: hash functions (Python hashlib), base32/base64 decoders, mime.WordDecoder, net/http header parsing, whatwg-url, net.ParseIP, time.Parse, Unicode case mapping; klauspost gzip (a member is its payload; a cut member yields a payload prefix then io.ErrUnexpectedEOF). bufio.Reader is remaining bytes + a persistent tail condition. Findings are compared by coarse kind derived from error texts. Known finding: under spec ignore a stream that ends before the declared length yields a silently shortened block.',
    assumptions=[],
)
PROPS['C08'] = dict(
    id='C08', domains=['coh', 'hparse', 'validate', 'unm', 'build'], no_model={'coh': True},
    n=dict(quick=dict(coh=1500, hparse=800, validate=300, unm=600, build=600), thorough=dict(coh=60000, hparse=30000, validate=20000, unm=20000, build=20000)),
    theorems=[('Properties.C08', ['C08_header_fail_is_first_warn_finding', 'C08_header_ignore_no_findings', 'C08_header_warn_never_errors', 'C08_digest_verification_coherent', 'C08_no_axis_at_warn_parser_adds_no_finding', 'C08_no_axis_at_warn_builder_adds_no_finding', 'C08_uniform_ignore_and_uniform_fail_are_covered', 'C08_parser_fail_errs_exactly_when_warn_finds_or_errs', 'C08_builder_fail_errs_exactly_when_warn_finds_or_errs', 'C08_header_parser_rejection_is_monotone', 'C08_header_validation_rejection_is_monotone', 'C08_header_parser_strict_acceptance_is_policy_independent', 'C08_axis_monotonicity_refuted_by_block_repair', 'C08_parser_rejection_is_monotone', 'C08_builder_rejection_is_monotone', 'C08_gzip_no_axis_at_warn_adds_no_finding', 'C08_gzip_fail_errs_exactly_when_warn_finds_or_errs', 'C08_gzip_rejection_is_monotone'])],
    kinds={'panic', 'policy-incoherent', 'wfblock-repair-nonmonotone'},
    rule='coh: mutated record streams (parser, plain/gzip) and builder inputs with declared lengths/digests; each run under uniform ignore / warn / fail (no findings under ignore; nil error under fail implies empty validation; fail errs iff warn has a finding or error; rejection monotone) and axis by axis (syntax, spec, unknown type, block) against the other axes as drawn; hparse/validate/unm/build: model correspondence under all policies',
    level_text='Proved in Coq for the WHOLE parser pipeline on plain streams (record-start search, version line, header parser, header validation, parseBlock, length/digest verification, end-of-record marker) and the whole builder, for every input and option setting - all four sentences: (1-2) with no axis at warn - uniform ignore, uniform fail, every mix - no stage adds a finding, so under ignore no finding is produced and under fail a nil error comes with an empty validation; (3) with all axes at one level, fail returns an error exactly when warn produces at least one finding or an error - the two runs proceed in lock step until the first finding, stage by stage; (4) rejection is monotone along all four axes at once (rejected under a setting, rejected under every setting at least as strict on each axis, in particular axis by axis) whenever the syntax level is the same in both settings or the warc-fields block repair is off (C08_parser_rejection_is_monotone, C08_builder_rejection_is_monotone: every stage is blind to the findings it is handed, so the pipeline is a function of the erased values on which each policy-dependent stage is monotone), and it is REFUTED in the remaining case (C08_axis_monotonicity_refuted_by_block_repair: the block is only repaired when the syntax policy makes its problems visible, so a record that declares the digest of its repaired block is rejected under syntax=ignore, accepted under warn, rejected under fail) - a witness the proof attempt produced and the implementation reproduces (known finding wfblock-repair-nonmonotone). Per-record gzip streams are covered at the level of items (a member is what its payload decompresses to, whole or cut; junk between members; members cut inside the gzip header): the member wrapper around the record parser keeps all four sentences (C08_gzip_*). The compressed bytes themselves are not modelled (klauspost gzip is an oracle). The implementation is run, uniformly and axis by axis, plain and gzip, for every generated input (including repair-sensitive records that declare the digest of their repaired block), the stage models being tied by the correspondence run. The defect that folded header lines ignored the policy was found here and repaired',
    level_note='Trusted: Coq kernel, extraction (ExtrOcamlBasic), harness and generators. Oracles: hash functions (Python hashlib), base32/base64 decoders, mime.WordDecoder, net/http header parsing, whatwg-url, net.ParseIP, time.Parse, Unicode case mapping; klauspost gzip (a member is its payload; a cut member yields a payload prefix then io.ErrUnexpectedEOF). bufio.Reader is remaining bytes + a persistent tail condition. Findings are compared by coarse kind derived from error texts. ',
    assumptions=[],
)

PROPS['C04'] = dict(
    id='C04', domains=['writer', 'unm', 'wcont'], no_model={'wcont': True},
    n=dict(quick=dict(writer=500, unm=1500, wcont=150), thorough=dict(writer=30000, unm=60000, wcont=5000)),
    theorems=[('Properties.C04', ['C04_offsets_are_positions', 'C04_write_appends_at_the_reported_offset', 'C04_a_reported_offset_is_a_record_position', 'C04_a_reader_at_the_reported_offset_returns_the_record'])],
    kinds={'panic', 'wrong-position', 'eof-offset', 'unreadable-file', 'reopen-mismatch', 'delivery-dependent'},
    rule='writer: 1 worker, 2-7 records of sizes around the limit, limits from half a record to unlimited, compression on/off, ratios 0.25-2, warcinfo on/off, flush on/off, 1-6 operations (single writes, batches of 2-3, the same record object written again, Rotate), a repeating name generator with empty in-progress suffix; every response is checked by opening a fresh reader at (file, offset) and by a sequential read (same offsets, EOF offset = file length); unm: for every cleanly read record of every generated stream (junk between records, plain and gzip) a fresh reader opened at the reported offset must return the same record',
    level_text="Proved in Coq for every sequence of Write (single, batched, repeated objects) and Rotate, every limit/compression/warcinfo configuration and every injective name generator: every response without error names a file that in the end contains the serialized (stamped) record as exactly one entry starting at exactly the reported offset, with BytesWritten its uncompressed length (C04_offsets_are_positions, by an invariant over all reachable writer states); Write appends at the end of the current file, whose size is the reported offset. Writer and reader are put together for uncompressed files (C04_a_reader_at_the_reported_offset_returns_the_record): after a Write without error and any further Writes and Rotates, a reader placed at the reported offset of the named file returns exactly the stamped record Write handed back, without error or finding, and stands at the next entry, provided the record is valid for the reader (the hypothesis of C01's reader theorem, met by what the strict builder returns); for compressed files the container is not modelled and the statement is evaluated on the implementation for every response. Reader side, last sentence (C04_a_reported_offset_is_a_record_position): for every plain stream and option setting, whatever offset Unmarshal reports for a record - also after skipping junk - is a position from which a fresh reader returns that same record (same record, error state and rest of stream; the record parser is blind to the findings it is handed). The writer model agrees with the implementation on names, offsets, sizes (incl. gzip member sizes) and callbacks for every generated sequence. The defect 'first record of a rotated file reports the size of the previous file' was found here and repaired.",
    level_note='Trusted: Coq kernel, extraction, harness. The file system is abstract: a file is the list of records appended to it; entry sizes are plain lengths or the gzip member size (oracle: klauspost gzip at the default level, computed outside gowarc). float64 ratio scaling is an oracle. The name generator is assumed injective (PatternNameGenerator with {serial}). os.OpenFile/Stat/Sync/Close/Rename are assumed to behave as the model says; their failure paths are not modelled. Concurrent workers are C09/C10.',
    assumptions=[],
)
PROPS['C13'] = dict(
    id='C13', domains=['writer', 'wcont', 'names', 'winfo'], no_model={'wcont': True, 'names': True, 'winfo': True},
    n=dict(quick=dict(writer=600, wcont=150, names=40, winfo=200), thorough=dict(writer=30000, wcont=5000, names=2000, winfo=6000)),
    theorems=[('Properties.C13', ['C13_every_file_begins_with_its_warcinfo', 'C13_fit_rule', 'C13_names_and_in_progress_state', 'C13_callback_arguments', 'C13_names_distinct_under_every_schedule', 'C13_int32_serials_distinct_within_2_32_calls', 'C13_load_then_store_refuted']),
              ('Properties.SerialTable', ['C13_serial_is_taken_by_one_atomic_add'])],
    kinds={'panic', 'warcinfo-rule', 'fit-rule', 'bad-name', 'open-file-left', 'callback-args', 'unreadable-file'},
    rule='writer domain (see C04): files are read back sequentially: first record is the warcinfo naming the file, exactly one, all others carry its id; no record appended beyond the limit to a file that already holds data (scaled declared length); names unique, compression suffix iff compressed, no in-progress suffix after Close; callback gets final name, true size, warcinfo id; names domain: several goroutines call NewWarcfileName on one generator, all names returned must differ (bad-name); winfo domain: a warcinfo generator that fails on some of its calls (its function returns an error, or it adds a field the strict record options reject): in the end every file begins with its own warcinfo record, every other record carries its id, no file is left under its in-progress name or under a final name without whole records, every acknowledged record is where the response says (warcinfo-rule)',
    level_text='Proved in Coq over all reachable states of the sequential writer: with a warcinfo generator every file begins with the warcinfo record built for its own name and every other record in it was stamped with the id of that record; a record is appended to a file that already holds data only if size + (scaled) declared length fits the limit, otherwise a new file is started; file names are exactly the names of the generator in order (never reused, for an injective generator), only the last file can be in progress; the callback receives final name, true size and warcinfo id. A record is one entry of one file by construction of the model (never split). Callers sharing one generator (goroutines, several writers): with the serial taken by one atomic add the serials handed out under every schedule of any number of calls are c+1, c+2, ... without repetition, so names are pairwise different for a pattern injective in the serial (C13_names_distinct_under_every_schedule); taken by load-then-store instead, a four-step schedule hands out a serial twice (C13_load_then_store_refuted); that the current source touches a Serial field only through sync/atomic and modifies it only by an atomic add is regenerated from the source on every run (C13_serial_is_taken_by_one_atomic_add); for the int32 counter of the code the same holds from any start value within 2^32 calls (C13_int32_serials_distinct_within_2_32_calls), beyond which serials repeat; the implementation is run with several goroutines on one generator (names domain). Model tied to warcfile.go by exact agreement of responses, file sizes and callbacks on every generated sequence.',
    level_note='Trusted: Coq kernel, extraction, harness. The file system is abstract: a file is the list of records appended to it; entry sizes are plain lengths or the gzip member size (oracle: klauspost gzip at the default level, computed outside gowarc). float64 ratio scaling is an oracle. The name generator is assumed injective (PatternNameGenerator with {serial}). os.OpenFile/Stat/Sync/Close/Rename are assumed to behave as the model says; their failure paths are not modelled. ',
    assumptions=[],
)

PROPS['C20'] = dict(
    id='C20', domains=['rev'],
    n=dict(quick=dict(rev=1500), thorough=dict(rev=60000)),
    theorems=[('Properties.C20', ['C20_revisit_is_truthful', 'C20_merge_restores_the_original', 'C20_revisit_carries_payload_digest_and_reference', 'C20_revisit_ref_reads_back_the_reference'])],
    kinds={'panic', 'revisit-untruthful', 'revisit-roundtrip', 'merge-wrong', 'type-disagrees'},
    rule='rev: HTTP request and response records built with all four digest algorithms x three encodings, both WARC versions, spill thresholds from 1 byte to above the record (original in memory or spilled), protocol headers up to 9 KB (beyond one bufio buffer), WARC-Date with and without sub-second part and zone offset, the four profiles: CreateRevisitRef, ToRevisitRecord, RevisitRef, marshal, strict re-parse, Merge (of the derived or of the re-parsed revisit); executable statement checks block = protocol header, truthful Content-Length and block digest (independent Go crypto), original payload digest, reference fields, strict round trip, merged block and length, Type() vs WARC-Type',
    level_text='Proved in Coq for every record, reference, option setting and oracle behaviour: when ToRevisitRecord succeeds the revisit block is exactly the protocol header, Content-Length is its length, WARC-Block-Digest is the configured digest of exactly those bytes, the type is revisit in both places and the profile is the reference\'s (C20_revisit_is_truthful); it carries the original\'s payload digest (for a resource record without one under the identical-payload profile its block digest), the reference\'s target id in angle brackets, target URI and date, and WARC-Truncated: length (C20_revisit_carries_payload_digest_and_reference), and RevisitRef() of it is the reference it was made from (C20_revisit_ref_reads_back_the_reference); merging the revisit with its original reproduces the original\'s block bytes, record type (in Type() and in WARC-Type) and Content-Length (C20_merge_restores_the_original). The strict round trip of the revisit is checked by the executable statement (it composes C01\'s stages). Model tied to record.go/revisitblock.go by differential runs over fields and blocks of the revisit and merged records.',
    level_note='Trusted: Coq kernel, extraction, harness. Oracles: hash functions, classification of the profile URIs, Unicode case mapping. The field names involved are distinct canonical keys of the field table regenerated from /repo (finite check by vm_compute). Merge models the block digest field as the original\'s field value (equal to its computed digest for records the builder completed).',
    assumptions=['the original was completed by the builder (its digest fields are the computed ones)'],
)

PROPS['C15'] = dict(
    id='C15', domains=['res'],
    n=dict(quick=dict(res=1500), thorough=dict(res=60000)),
    theorems=[('Properties.C15', ['C15_builder_and_built_record_release_the_spill_file', 'C15_parsed_record_releases_the_spill_file_on_every_fault', 'C15_reader_descriptor_is_released', 'C15_temp_file_only_when_memory_is_full'])],
    kinds={'panic', 'leak'},
    rule='res: scenarios builder-close, build-close, failed strict Build, parse-close, parse with a read fault at a seeded position (half of them late in the content or in the end-of-record marker), revisit+merge derivations, file reader (valid and negative offset), marshal to a failing writer; generic and HTTP content of sizes 0, 1, threshold-1, threshold, threshold+1, 2x, 3x+7; after every step the private temp directory and /proc/self/fd are counted (garbage-collector finalizers flushed before the baseline); executable statement: after closing everything returned, no temp file and no extra descriptor',
    level_text='PARTIAL / thin model: the theorems are about an ownership ledger (which spill buffer owns a temp file, which Close releases it, on success and on every injected fault): closing whatever Build / Unmarshal / NewWarcFileReader returned empties the ledger for every size, threshold and fault position; a buffer owns a temp file only once its memory part is full (from the C14 invariant). Whether the code follows that ownership on every path is observed, not proved: the harness counts temp files and descriptors after every step of every scenario, and the model ledger is compared with those counts for the builder and parser scenarios. The descriptor leak on an invalid reader offset was found here and repaired.',
    level_note='Trusted: Coq kernel, extraction, harness; /proc/self/fd and the directory listing as observations of the OS state. The ownership model is hand-written from the code (builder content buffer, block Cache buffer, reader file); it does not model the garbage collector (os.File finalizers would eventually close leaked descriptors).',
    assumptions=[],
)

C09_THEOREMS = ['C09_records_of_every_write_are_written_exactly_once_in_order', 'C09_in_flight_writes_are_a_prefix',
                'C09_every_job_is_finished_exactly_once', 'C09_responses_are_those_of_the_submitted_batch',
                'C09_one_thread_in_a_file_critical_section', 'C09_a_job_is_held_by_one_thread',
                'C09_batch_in_one_file_refuted', 'C09_executable_successors_are_the_steps']
C10_THEOREMS = ['C10_no_deadlock', 'C10_no_infinite_run', 'C10_every_call_returns_on_every_run',
                'C10_close_returns_only_when_every_file_is_closed', 'C10_after_close_nothing_reopens',
                'C10_write_on_a_closed_writer_returns_no_responses']
def _conc_stats(c, o):
    t = c.split()
    if not t or t[0] != 'conc':
        return ['domain=%s' % (t[0] if t else '?')]
    ks = ['workers=%s' % t[1], 'goroutines=%s' % t[8], 'delaymode=%s' % ('none' if t[6] == '0' else 'random' if t[6] == '1' else 'targeted')]
    if ' c' in c: ks.append('with-close')
    if ' r' in c: ks.append('with-rotate')
    if t[7] == '1': ks.append('continuation-marshaler')
    if ':n' in o: ks.append('a-write-returned-nil')
    return ks
CONC_RULE = ('conc: 1-4 goroutines with scripts of 1-4 calls (Write of 1-3 records, Rotate, Close) on one writer with 1-3 workers, '
             'compression on/off, size limits that force rotation, warcinfo on/off, a marshaler that returns continuation segments; the schedule is steered '
             'through the verif hooks (random short delays at the 12 schedule points, or one long delay at the k-th hit of one point); afterwards a final Close, '
             'a late Write, and every file is read back with the strict reader. The history of the run (order of call starts and returns, with results) is given to the '
             'extracted protocol model, which searches for a model run with that history (set of compatible model states closed under Protocol.succs); a history the model cannot produce is a mismatch. '
             'distinct = distinct (scenario, observation) pairs')
PROPS['C09'] = dict(
    id='C09', domains=['conc', 'wcont'], feed_impl=('conc',), no_model={'wcont': True},
    n=dict(quick=dict(conc=300, wcont=150), thorough=dict(conc=6000, wcont=5000)),
    theorems=[('Properties.C09', C09_THEOREMS), ('Properties.SyncSkeleton', ['sync_skeleton_is_the_modelled_one'])],
    kinds={'panic', 'torn-file', 'lost-or-duplicated', 'misplaced', 'nil-but-written', 'batch-not-contiguous', 'batch-split-across-files'},
    stats=_conc_stats,
    rule=CONC_RULE,
    level_text='PARTIAL, with one part REFUTED. Proved in Coq for every number of callers, scripts, workers and EVERY interleaving of the protocol model (callers, dispatcher, workers, channels, per-worker mutexes): the record writes done for a caller are exactly, in order, records 0..b-1 of each Write that returned b responses and none for a Write that returned no responses; a job is finished exactly once, by one worker; responses are those of the submitted batch; at most one thread is inside a worker\'s file critical section (so each file history is a sequential run of the writer model of C04/C12/C13). Refuted: batch contiguity (theorem C09_batch_in_one_file_refuted: a concurrent Rotate closes the file between two records of a batch; C13 has the size-triggered variant) - known finding batch-split-across-files. Not proved: byte-level intactness of files under concurrency (observed by reading every file back).',
    level_note='Trusted: Coq kernel, extraction, the translator go/gen (sync skeleton of warcfile.go, regenerated on every run and compared with the skeleton the model was written from), harness. Modelled, not verified: Go channel/select/mutex/WaitGroup semantics as interleaving transitions; a critical section body (one record write or a file close, including a continuation segment written through the unlocked inner write) is one step that returns. The file contents are the sequential writer model (C04); here a file is open/closed plus an event log.',
    assumptions=['Go runtime: unbuffered channel rendezvous, close-broadcast, sync.Mutex and sync.WaitGroup behave as the interleaving semantics says',
                 'file system calls and user hooks inside a critical section return'],
)
PROPS['C10'] = dict(
    id='C10', domains=['conc'], feed_impl=('conc',),
    n=dict(quick=dict(conc=300), thorough=dict(conc=6000)),
    theorems=[('Properties.C10', C10_THEOREMS), ('Properties.SyncSkeleton', ['sync_skeleton_is_the_modelled_one'])],
    kinds={'panic', 'deadlock', 'close-early', 'write-after-close'},
    stats=_conc_stats,
    rule=CONC_RULE,
    level_text='PARTIAL (scheduler fairness and termination of file-system calls are assumed). Proved in Coq for every number of callers with finite scripts, every number of workers >= 1 and every interleaving: a reachable state with an unfinished call is never stuck (no deadlock, no lost wake-up), every step decreases a measure (no infinite run), hence on every run all calls return; a Close returns only when all workers have ended and every file is closed, and nothing reopens; a Write on a closed writer returns no responses in its first step. The implementation is run under steered schedules with a watchdog, and its call/return histories must be runs of the model.',
    level_note='Trusted: Coq kernel, extraction, translator (sync skeleton), harness. Not exhibited by the model: Go scheduler fairness; blocking inside os calls or user callbacks. The continuation path is covered by the skeleton check (no call of the locking Write/Close from inside a critical section) and by the harness marshaler that returns continuation records.',
    assumptions=['Go runtime channel/mutex/WaitGroup semantics; a runnable goroutine eventually runs',
                 'file system calls and user hooks inside a critical section return'],
)
PROPS['C12'] = dict(
    id='C12', domains=['crash', 'winfo'], no_model={'crash': True, 'winfo': True},
    n=dict(quick=dict(crash=300, winfo=120), thorough=dict(crash=10000, winfo=3000)),
    theorems=[('Properties.C12', ['C12_final_files_are_never_written_again', 'C12_acknowledged_records_are_already_appended', 'C12_a_final_file_holds_all_its_records_at_every_kill_point'])],
    kinds={'panic', 'crash-unsafe'},
    rule='crash: writer sequences as in C04 under the verif hooks; at EVERY file-system effect point (create, first and second half of every write, sync, close, rename, callback) the directory is snapshotted (= what a kill at that instant leaves): final-named files equal their final content, in-progress files are prefixes of their final content, every record acknowledged before the snapshot is fully present at its reported file and offset; scenarios: plain, a leftover in-progress file of an earlier killed process under the first name, Rotate from another goroutine while a record is half written',
    level_text='PARTIAL (the OS half - what a killed process leaves on disk, rename atomicity - is assumed and only observed). Proved in Coq about the effect trace of every writer run: after a file has been renamed to its final name no record is ever appended to it again, so at every kill point final-named files are complete; appends are whole records to the single in-progress file; a record is acknowledged only after its append. The effect points of the implementation are instrumented with the verif hooks and every snapshot is checked against the final directory.',
    level_note='Trusted: Coq kernel, extraction, harness. The file system is abstract: a file is the list of records appended to it; entry sizes are plain lengths or the gzip member size (oracle: klauspost gzip at the default level, computed outside gowarc). float64 ratio scaling is an oracle. The name generator is assumed injective (PatternNameGenerator with {serial}). os.OpenFile/Stat/Sync/Close/Rename are assumed to behave as the model says; their failure paths are not modelled. In-process snapshots stand for kills (kernel-buffered writes of a killed process persist); no real SIGKILL is sent.',
    assumptions=[],
)

def _race_stats(c, o):
    t = c.split()
    return ['workload=%s' % (t[1] if len(t) > 1 else '?')]
PROPS['C11'] = dict(
    id='C11', domains=['race'], no_model={'race': True}, race_domains=('race',), per_case_domains=('race',),
    n=dict(quick=dict(race=42), thorough=dict(race=700)),
    theorems=[('Properties.C11', ['C11_guarded_accesses_are_ordered_by_happens_before', 'C11_disciplined_traces_have_no_data_race',
                                  'C11_unsynchronised_writes_are_a_race', 'C11_mutex_trace_meets_the_hypotheses']),
              ('Properties.AccessTable', ['C11_access_table_follows_the_disciplines'])],
    kinds={'panic', 'data-race', 'crash'},
    stats=_race_stats,
    rule='race: workloads of the supported concurrent uses (distinct builders, unmarshalers, file readers and records in parallel goroutines; one shared file writer with its shared name generator, 1-3 workers, default and customised options; several writers at once) run in a binary built with -race, one fresh process per case so that process-wide state is cold every time; a race report (the detector halts the process) is a violation with the two access stacks as detail. No model prediction is compared here; the tie is the access table regenerated from the source (theorem C11_access_table_follows_the_disciplines).',
    level_text='PARTIAL. Proved in Coq for every trace: locations that are read-only in the trace or guarded by an exclusive sync object have all conflicting accesses ordered by happens-before, so a trace following the disciplines has no data race (Go memory model happens-before: program order + release/acquire on the same sync object). Proved (by computation, on tables regenerated from the current source on every run): every package-level variable of the library is immutable after init or a sync object; every function touching a guarded field of singleWarcFileWriter is only reachable with writeLock held; fields of the shared WarcFileWriter / PatternNameGenerator are not written outside constructors (Serial is atomic); process-wide mutators of dependencies are called from init only. NOT proved: that the tables describe every access of every execution (syntactic type resolution, no alias analysis, dependencies not analysed) - this bridge is observed under the Go race detector.',
    level_note='Trusted: Coq kernel, the translator go/gen (racetable), the Go race detector as the observer. Modelled, not verified: the Go memory model as happens-before over release/acquire pairs; mutex exclusivity; the handoff of job structs over unbuffered channels is covered by the protocol model (a job is held by one thread, C09).',
    assumptions=['Go memory model; the race detector reports races that occur in the executed schedule only',
                 'the access table is complete for the shared state of the library (no aliasing of guarded objects under other static types, no reflection/unsafe)'],
)
