"""Per-property configuration of the checks (see DESIGN.md section 4)."""

def c18_classify(case, impl, model, spec):
    if 'PANIC' in impl:
        return 'panic'
    return 'differs-from-multimap'

PROPS = {}

PROPS['C18'] = dict(
    id='C18',
    domains=['fields'],
    n=dict(quick=1500, thorough=60000),
    theorems=[('Properties.C18', ['C18_fields_refine_multimap', 'C18_normalize_idempotent', 'C18_normalize_case_insensitive',
                                   'C18_set_one_value_at_first_position', 'C18_delete_removes_all', 'C18_sort_stable_by_name',
                                   'C18_serialization', 'C18_itoa_atoi'])],
    classify=c18_classify,
    rule='operation sequences on WarcFields (1..60 ops, names drawn from a small per-case pool of known/unknown/odd names in random letter case so that they collide; values from a pool plus random CR/LF-free bytes); distinct = distinct (observations, final state) of the implementation; non-trivial = at least one field present at the end or a getter returned data',
    nontrivial=lambda c, o: not o.endswith('|h') and not o.endswith('|'),
    stats=lambda c, o: ['ops:%d' % min(60, (int(c.split()[1]) // 10) * 10)] + (['sort'] if ' sort' in c else []) + (['set'] if ' set ' in c else []),
    level_text='Proved in Coq for every operation sequence of any length and every starting content: the model of the WarcFields methods (as written in warcfields.go, canonical names from the field table regenerated from /repo) returns exactly the observations and final content of a reference ordered multimap (C18_fields_refine_multimap); normalisation is idempotent and case-insensitive on token/known names; Set/Delete/Sort/serialization laws and the Itoa/Atoi round trip are separate theorems. The model is tied to the code by running the extracted model and the real WarcFields on the same seeded op sequences (all getters after every step, final String()).',
    level_note='Trusted: Coq kernel, extraction (ExtrOcamlBasic only), the field-table translator, the correspondence harness and its generator; sort.SliceStable is assumed stable (stdlib contract); strings.ToLower on non-ASCII names is an oracle. Names outside the RFC 7230 token alphabet are case-sensitive keys (Go canonicaliser), stated in the theorem.',
    assumptions=['sort.SliceStable is a stable sort (contract of the Go standard library)',
                 'strings.ToLower on names with non-ASCII bytes is an oracle (uni_lower)'],
)
