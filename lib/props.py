"""Per-property configuration of the checks (see DESIGN.md section 4)."""

def c18_classify(case, impl, model, spec):
    if 'PANIC' in impl:
        return 'panic'
    return 'differs-from-multimap'

PROPS = {}

PROPS['C18'] = dict(
    id='C18',
    domains=['fields'],
    n=dict(quick=1500, thorough=60000),
    theorems=[('Properties.C18', ['C18_fields_refine_multimap', 'C18_normalize_idempotent', 'C18_normalize_case_insensitive',
                                   'C18_set_one_value_at_first_position', 'C18_delete_removes_all', 'C18_sort_stable_by_name',
                                   'C18_serialization', 'C18_itoa_atoi'])],
    classify=c18_classify,
    rule='operation sequences on WarcFields (1..60 ops, names drawn from a small per-case pool of known/unknown/odd names in random letter case so that they collide; values from a pool plus random CR/LF-free bytes); distinct = distinct (observations, final state) of the implementation; non-trivial = at least one field present at the end or a getter returned data',
    nontrivial=lambda c, o: not o.endswith('|h') and not o.endswith('|'),
    stats=lambda c, o: ['ops:%d' % min(60, (int(c.split()[1]) // 10) * 10)] + (['sort'] if ' sort' in c else []) + (['set'] if ' set ' in c else []),
    level_text='Proved in Coq for every operation sequence of any length and every starting content: the model of the WarcFields methods (as written in warcfields.go, canonical names from the field table regenerated from /repo) returns exactly the observations and final content of a reference ordered multimap (C18_fields_refine_multimap); normalisation is idempotent and case-insensitive on token/known names; Set/Delete/Sort/serialization laws and the Itoa/Atoi round trip are separate theorems. The model is tied to the code by running the extracted model and the real WarcFields on the same seeded op sequences (all getters after every step, final String()).',
    level_note='Trusted: Coq kernel, extraction (ExtrOcamlBasic only), the field-table translator, the correspondence harness and its generator; sort.SliceStable is assumed stable (stdlib contract); strings.ToLower on non-ASCII names is an oracle. Names outside the RFC 7230 token alphabet are case-sensitive keys (Go canonicaliser), stated in the theorem.',
    assumptions=['sort.SliceStable is a stable sort (contract of the Go standard library)',
                 'strings.ToLower on names with non-ASCII bytes is an oracle (uni_lower)'],
)

def c14_classify(case, impl, model, spec):
    if 'PANIC' in impl:
        return 'panic'
    return 'differs-from-plain-buffer'

PROPS['C14'] = dict(
    id='C14',
    domains=['spill'],
    n=dict(quick=3000, thorough=150000),
    theorems=[('Properties.C14', ['C14_spill_refines_plain_buffer', 'C14_spill_refines_from_any_state', 'C14_spill_invariant_reachable', 'C14_end_of_data_contract'])],
    classify=c14_classify,
    rule='histories on diskbuffer.New(maxMem, hint): 1-4 Write/WriteString/ReadFrom calls (ReadFrom sources in chunks of 1..512 bytes, EOF with or after the last data, injected error), then up to 8 Read/Peek/ReadBytes/ReadString/Seek(0)/Size calls and slice views (bounded and unbounded) with their own read ops; threshold drawn from 1..total+2 so that it falls inside writes, lines and peek windows; every fifth case uses data up to 260 bytes per write; distinct = distinct implementation observation strings; non-trivial = at least one data-returning op',
    nontrivial=lambda c, o: 'd:h' in o,
    stats=lambda c, o: (['slice'] if ' sl ' in c else []) + (['readfrom'] if ' rf ' in c else []) + (['spilled'] if int(c.split()[1]) < 40 else ['mem-only']),
    level_text='Proved in Coq by refinement, for every operation history of any length, every data and every memory threshold >= 1: the model of diskbuffer (memory part, temp-file part created when memory fills, two-part reads with their EOF signalling, nil file buffer, bounded and unbounded slice views) returns exactly the bytes, counts, sizes and end-of-data signals of a plain byte list with a read offset; the spill invariant (nothing on disk while memory has room) holds in every reachable state; the EOF convention is shown to be a legal io.Reader behaviour. Model tied to the code by running both on seeded histories with the threshold at every position relative to the data.',
    level_note='Trusted: Coq kernel, extraction, harness/generator. Not modelled (covered by the correspondence run only): growth of the backing array and the size hint, the 100-byte chunking of line reads from the file part, the chunk sizes in which ReadFrom pulls from its source, the OS file position; maxTotalBytes is not exercised. WriteTo/ReadByte are outside the property.',
    assumptions=['os.File ReadAt/WriteAt/Seek+CopyN behave as a byte array', 'EOF convention: a read/peek of k bytes reports io.EOF exactly when fewer than k bytes were left (legal io.Reader behaviour, theorem C14_end_of_data_contract)'],
)

def c17_project(case, impl):
    """what the implementation says about acceptance, in the vocabulary of the specification"""
    f = case.split()
    spec = int(f[1])
    if impl.startswith('PANIC'):
        return 'PANIC'
    if spec == 0:
        return None
    if impl.startswith('err'):
        return 'acc=0'
    kinds = [k for k in impl.split(';f=')[1].split(';')[0].split(',') if k]
    if spec == 2:
        return 'acc=1'
    return 'acc=1' if all(k == 'ut' for k in kinds) else 'acc=0'

def c17_classify(case, impl, model, spec):
    if 'PANIC' in impl:
        return 'panic'
    return 'accepts-malformed' if spec == 'acc=0' else 'rejects-wellformed'

PROPS['C17'] = dict(
    id='C17',
    domains=['validate'],
    n=dict(quick=2000, thorough=100000),
    theorems=[('Properties.C17', ['C17_table_is_reference', 'C17_strict_accepts_iff_spec', 'C17_warn_returns_record_with_all_defects', 'C17_warn_findings_iff_strict_rejects', 'C17_no_defect_iff_accepted', 'C17_ignore_no_findings'])],
    classify=c17_classify,
    spec_project=c17_project,
    rule='(1) exhaustive: every known field x 9 record types (8 + unknown) x 3 versions (1.0, 1.1, unknown) x multiplicity {1,2} x {valid, invalid} value, policies alternating warn/fail = 5184 header sets; (2) seeded random header sets with missing mandatory fields, 0-4 extra fields with valid/invalid values, shuffled; distinct = distinct implementation observations; non-trivial = validation went past the record-type resolution',
    nontrivial=lambda c, o: not o.startswith('err:mt') and not o.startswith('err:ut'),
    stats=lambda c, o: ['spec:%s' % c.split()[1], o.split(';')[0].split(':')[0]] + (['finding:' + k for k in set(o.split(';f=')[1].split(';')[0].split(',')) if k] if ';f=' in o else []),
    level_text='Proved in Coq for every header set WarcFields can hold (canonical names), every WARC version id, every setting of the unknown-type axis and every behaviour of the value-syntax oracles: strict validation accepts exactly when the property\'s conditions hold (C17_strict_accepts_iff_spec); under warn the record is returned and the findings are exactly the list of defects, so exactly the rejected header sets produce findings (C17_warn_*); ignore produces none. The field table the model runs on is regenerated from headerfielddef.go on every run and proved equal to the hand-transcribed reference table (C17_table_is_reference); the executable specification is evaluated over the reference table. Model tied to validateHeader by an exhaustive field x type x version x multiplicity x valid/invalid sweep plus random multi-defect header sets.',
    level_note='Trusted: Coq kernel, extraction, the field-table translator (go/ast), harness. Oracles: time.Parse(RFC3339), net.ParseIP, whatwg-url parsing, strings.ToLower on non-ASCII. "Well-formed" for time/IP/URI IS the oracle; integers and bracketed ids are modelled exactly. The reference table is the pinned table, not ISO 28500 (not available offline). Findings are compared by coarse kind derived from the error text.',
    assumptions=['header sets are canonical (every name went through WarcFields.Add)', 'reference table = the table at the pinned commit'],
)

PROPS['C19'] = dict(
    id='C19',
    domains=['hparse', 'hapi'],
    n=dict(quick=dict(hparse=3000, hapi=1500), thorough=dict(hparse=150000, hapi=50000)),
    theorems=[('Properties.C19', ['C19_clean_fields_survive_serialize_then_parse', 'C19_added_token_fields_are_clean', 'C19_fixpoint_refuted'])],
    rule='hparse: header sections assembled from a pool of lines (valid, folded, bare LF, CR CR LF, missing colon, empty name, MIME encoded-words incl. ones decoding to CR LF or to another encoded-word, non-ASCII, control bytes), random line ends, byte flips and truncation, 3 syntax policies, EOF or injected read error after the data, source chunkings 0/1/3/64; every 40th case is a 9 KB well-formed section whose line ends sweep bufio\'s 4096-byte boundary. hapi: field sets built with Add from token names and CR/LF-free values (incl. edge blanks, NBSP, encoded-words), serialized and parsed. Executable statement evaluated on the implementation for every accepted input: parse(serialize(parse x)) = parse x with no findings. distinct = distinct implementation observations; non-trivial = the parser returned fields',
    nontrivial=lambda c, o: o.startswith('nil'),
    stats=lambda c, o: [c.split()[0] + ':' + o.split(';')[0], 'policy:' + c.split()[1]],
    level_text='Proved in Coq (C19_clean_fields_survive_serialize_then_parse): every non-empty field list with canonical colon-free names, LF-free and edge-blank-free names and values and no "=?" parses back from its serialization to exactly itself, under every syntax policy, whatever follows in the stream and whatever the MIME decoder does, with no finding and nothing consumed beyond the blank line (unbounded lists, induction). The unrestricted first sentence is false of the faithful model and of the code: C19_fixpoint_refuted exhibits the smuggling witness (kept as a known finding: encoded-words are decoded into values that may contain CR LF). PARTIAL: that every list the parser returns from "=?"-free input satisfies the hypotheses of the theorem is not yet proved; it is checked on the implementation by the executable statement parse(serialize(parse x)) = parse x, no findings, for every generated input. Model tied to warcfieldsParser.Parse by differential runs (fields, finding count, error class, bytes consumed).',
    level_note='Trusted: Coq kernel, extraction, harness. Oracle: mime.WordDecoder.DecodeHeader for lines containing "=?" (Go\'s identity fast path for other lines is modelled); strings.ToLower on non-ASCII names. bufio.Reader is abstracted to remaining bytes + a persistent EOF/error tail; its internal 4096-byte chunking is exercised by the generator (9 KB sections sweeping the boundary) but not modelled. Reading of the text: the blank line belongs to the marshaler, an empty field list serializes to the empty string.',
    assumptions=['bufio.Reader.ReadBytes/Peek behave as on an unbounded byte list with a persistent tail condition'],
)

PROPS['C16'] = dict(
    id='C16',
    domains=['block'],
    n=dict(quick=3000, thorough=150000),
    theorems=[('Properties.C16', ['C16_accessors_answer_from_the_complete_block', 'C16_digests_and_size_describe_the_complete_block', 'C16_cached_readers_start_at_the_first_byte', 'C16_uncached_reaccess_is_an_explicit_error'])],
    classify=lambda c, i, m, s: 'panic' if 'PANIC' in i else 'accessor-order-dependent',
    rule='accessor sequences (1-8 calls of RawBytes/PayloadBytes with drain none/partial/full, BlockDigest, PayloadDigest, Size, Cache, IsCached) on blocks constructed as parseBlock does (generic, HTTP request/response, warc-fields, revisit), from a seekable spill buffer (builder) or a one-shot stream (parser), 4 algorithms x 3 encodings, spill thresholds from 1 byte to above the block size; distinct = distinct implementation observations; non-trivial = at least one data or digest observation',
    nontrivial=lambda c, o: 'd:h' in o or 's:h' in o,
    stats=lambda c, o: ['kind:' + c.split()[1], 'cached:' + c.split()[2]] + (['reaccess-error'] if 'err' in o else []),
    level_text='Proved in Coq by refinement with an invariant, for every protocol header, payload, cached/uncached source and accessor sequence of any length: the content-access state machine of generic and HTTP blocks (digesting first reader, frozen digest strings, seek-to-start readers, Cache) gives exactly the answers of a specification that is a function of the complete block: digests and size of the whole block, readers of cached blocks from the first byte, the explicit error on re-access of an uncached block. Model tied to block.go/httpblock.go by constructing blocks as parseBlock does (white-box) from seekable and one-shot sources and running the same accessor sequences; digest texts are computed by the Digest model with hashes from Python hashlib.',
    level_note='Trusted: Coq kernel, extraction, harness. Readers are drained (fully, partly, not at all) before the next accessor call - a reader kept and used after a later call is outside the statement. warc-fields and revisit blocks are constant blocks (checked by correspondence as cached blocks; PayloadDigest of a revisit block is a stored string and is exercised in C20). Hash functions and base32/64 decoders are oracles.',
    assumptions=['readers are drained to the stated extent before the next accessor call'],
)

PROPS['C02'] = dict(
    id='C02',
    domains=['build'],
    n=dict(quick=3000, thorough=120000),
    theorems=[('Properties.C02', [])],
    kinds={'panic', 'untruthful-length', 'untruthful-block-digest', 'untruthful-payload-digest', 'bad-record-id', 'stale-length-after-wfblock-repair', 'id-repeats'},
    rule='TODO', level_text='TODO', level_note='TODO',
)

PROPS['C05'] = dict(
    id='C05',
    domains=['unm', 'hparse', 'build'],
    n=dict(quick=dict(unm=2500, hparse=1500, build=1000), thorough=dict(unm=100000, hparse=50000, build=40000)),
    theorems=[('Properties.C05', [])],
    kinds={'panic', 'hang', 'no-progress', 'memory', 'crash'},
    rule='TODO', level_text='TODO', level_note='TODO',
)

PROPS['C01'] = dict(
    id='C01',
    domains=['rt', 'unm', 'build'],
    no_model={'rt': True},
    n=dict(quick=dict(rt=2500, unm=800, build=600), thorough=dict(rt=120000, unm=40000, build=30000)),
    theorems=[('Properties.C01', [])],
    kinds={'panic', 'roundtrip-lossy', 'remarshal-differs', 'policy-incoherent', 'trimmed-value'},
    rule='TODO', level_text='TODO', level_note='TODO',
)

PROPS['C03'] = dict(
    id='C03',
    domains=['ver', 'build', 'unm'],
    no_model={'ver': True},
    n=dict(quick=dict(ver=3000, build=800, unm=800), thorough=dict(ver=150000, build=40000, unm=40000)),
    theorems=[('Properties.C03', [])],
    kinds={'panic', 'unreported', 'false-report', 'repair-untruthful', 'resource-payload-digest'},
    rule='TODO', level_text='TODO', level_note='TODO',
)

PROPS['C06'] = dict(
    id='C06', domains=['trunc', 'unm'], no_model={'trunc': True},
    n=dict(quick=dict(trunc=120, unm=1500), thorough=dict(trunc=1500, unm=60000)),
    theorems=[('Properties.C06', [])],
    kinds={'panic', 'hang', 'wellformed-file-not-clean', 'complete-record-lost', 'partial-record-clean', 'truncation-invisible'},
    rule='TODO', level_text='TODO', level_note='TODO',
)
PROPS['C07'] = dict(
    id='C07', domains=['pol', 'unm', 'validate'], no_model={'pol': True},
    n=dict(quick=dict(pol=2500, unm=1000, validate=300), thorough=dict(pol=100000, unm=40000, validate=20000)),
    theorems=[('Properties.C07', [])],
    kinds={'panic', 'block-shortened', 'short-stream-under-ignore', 'policy-changes-header', 'policy-changes-block', 'value-destroyed'},
    rule='TODO', level_text='TODO', level_note='TODO',
)
PROPS['C08'] = dict(
    id='C08', domains=['coh', 'hparse', 'validate', 'unm', 'build'], no_model={'coh': True},
    n=dict(quick=dict(coh=1500, hparse=800, validate=300, unm=600, build=600), thorough=dict(coh=60000, hparse=30000, validate=20000, unm=20000, build=20000)),
    theorems=[('Properties.C08', [])],
    kinds={'panic', 'policy-incoherent'},
    rule='TODO', level_text='TODO', level_note='TODO',
)
