"""vcheck — build, correspondence run, verdict and evidence for every property."""
import sys, os, json, time, subprocess, hashlib, fcntl, shutil, re, glob, zlib, gzip as _gzip, io

ROOT = os.path.dirname(os.path.dirname(os.path.abspath(__file__)))
REPO = os.environ.get('VERIF_REPO', '/repo')
BUILD = os.path.join(ROOT, 'build')
COQ = os.path.join(ROOT, 'coq')
GOENV = dict(os.environ, GOFLAGS='-mod=mod', GOPROXY='off', GOSUMDB='off', GOTOOLCHAIN='local',
             CGO_ENABLED=os.environ.get('CGO_ENABLED', '1'))
HYGIENE_RE = re.compile(r'\b(Admitted|admit|Axiom|Axioms|Parameter|Parameters|Conjecture|Conjectures|Hypothesis|Variables?)\b|Unset\s+Guard|bypass_check|type-in-type|Admit Obligations')

def log(*a):
    print('[check]', *a, file=sys.stderr, flush=True)

def sh(cmd, cwd=None, env=None, timeout=None, check=False, inp=None):
    p = subprocess.run(cmd, cwd=cwd, env=env, timeout=timeout, input=inp,
                       stdout=subprocess.PIPE, stderr=subprocess.STDOUT, text=True)
    if check and p.returncode != 0:
        raise RuntimeError('command failed: %s\n%s' % (' '.join(cmd), p.stdout[-4000:]))
    return p.returncode, p.stdout

def file_hash(paths):
    h = hashlib.sha256()
    for p in sorted(paths):
        h.update(p.encode()); h.update(b'\0')
        try:
            h.update(open(p, 'rb').read())
        except OSError:
            h.update(b'<missing>')
    return h.hexdigest()

class Lock:
    def __enter__(self):
        os.makedirs(BUILD, exist_ok=True)
        self.f = open(os.path.join(BUILD, 'lock'), 'w')
        fcntl.flock(self.f, fcntl.LOCK_EX)
        return self
    def __exit__(self, *a):
        fcntl.flock(self.f, fcntl.LOCK_UN); self.f.close()

# --------------------------------------------------------------------------
# build steps
# --------------------------------------------------------------------------
def build_gen():
    src = glob.glob(os.path.join(ROOT, 'go/gen/*.go')) + [os.path.join(ROOT, 'go/gen/go.mod')]
    stamp = os.path.join(BUILD, 'gen.stamp')
    h = file_hash(src)
    exe = os.path.join(BUILD, 'gen')
    if os.path.exists(exe) and os.path.exists(stamp) and open(stamp).read() == h:
        return
    sh(['go', 'build', '-o', exe, '.'], cwd=os.path.join(ROOT, 'go/gen'), env=GOENV, check=True, timeout=600)
    open(stamp, 'w').write(h)

def run_translators():
    """T-A: regenerate coq/Gen/*.v from the current source of /repo."""
    os.makedirs(os.path.join(COQ, 'Gen'), exist_ok=True)
    out = {}
    for what, target in TRANSLATORS:
        tgt = os.path.join(COQ, 'Gen', target)
        rc, o = sh([os.path.join(BUILD, 'gen'), what, REPO, tgt], env=GOENV, timeout=600)
        out[what] = (rc, o.strip())
        if rc != 0:
            # the translator cannot read the source any more: the model is not tied to it.  The stale
            # generated file must not stand in: every theorem over it stops checking.
            log('translator %s failed: %s' % (what, o.strip()[-300:]))
            open(tgt, 'w').write('(* GENERATED: translator %s FAILED on the current source: %s *)\nDefinition translator_failed := tt.\n'
                                 % (what, o.strip().replace('*)', '* )')[-300:]))
    return out

TRANSLATORS = [('fieldtable', 'FieldTable.v'), ('syncskel', 'SyncSkeleton.v'), ('racetable', 'AccessTable.v')]

def coq_make():
    """Full .vo build (coq_makefile + make -k). Returns (all_ok, log, failed_files)."""
    mk = os.path.join(COQ, 'Makefile')
    proj = os.path.join(COQ, '_CoqProject')
    if not os.path.exists(mk) or os.path.getmtime(mk) < os.path.getmtime(proj):
        sh(['coq_makefile', '-f', '_CoqProject', '-o', 'Makefile'], cwd=COQ, check=True)
    rc, out = sh(['timeout', '3000', 'make', '-k', '-j16'], cwd=COQ)
    failed = re.findall(r'\*\*\* \[[^\]]*?: ([A-Za-z0-9_/]+)\.vo\] Error', out)
    with open(os.path.join(BUILD, 'coq.log'), 'w') as f:
        f.write(out)
    return rc == 0, out, sorted(set(failed))

def hygiene():
    """No Admitted/Axiom/Parameter/... anywhere in the development (comments stripped)."""
    bad = []
    for p in glob.glob(os.path.join(COQ, '**/*.v'), recursive=True):
        if '/Gen/' in p and False:
            continue
        txt = open(p).read()
        txt = strip_coq_comments(txt)
        in_section = 0
        for ln, line in enumerate(txt.split('\n'), 1):
            if re.match(r'\s*Section\b', line): in_section += 1
            if re.match(r'\s*End\b', line) and in_section > 0: in_section -= 1
            m = HYGIENE_RE.search(line)
            if m:
                w = m.group(0)
                # Variable / Hypothesis are fine inside a Section (they become ordinary arguments)
                if w.split()[0] in ('Variable', 'Variables', 'Hypothesis') and in_section > 0:
                    continue
                bad.append('%s:%d: %s' % (os.path.relpath(p, ROOT), ln, line.strip()))
    return bad

def strip_coq_comments(txt):
    out = []; depth = 0; i = 0; instr = False
    while i < len(txt):
        if depth == 0 and txt[i] == '"':
            instr = not instr; out.append(txt[i]); i += 1; continue
        if not instr and txt.startswith('(*', i):
            depth += 1; i += 2; continue
        if not instr and depth > 0 and txt.startswith('*)', i):
            depth -= 1; i += 2; continue
        if depth == 0:
            out.append(txt[i])
        elif txt[i] == '\n':
            out.append('\n')
        i += 1
    return ''.join(out)

def coq_args():
    return ['-Q', os.path.join(COQ, 'Model'), 'Model', '-Q', os.path.join(COQ, 'Gen'), 'Gen',
            '-Q', os.path.join(COQ, 'Proofs'), 'Proofs', '-Q', os.path.join(COQ, 'Properties'), 'Properties']

def extract_and_build_driver():
    d = os.path.join(BUILD, 'ocaml'); os.makedirs(d, exist_ok=True)
    shutil.copy(os.path.join(COQ, 'Extract/Extract.v'), os.path.join(d, 'Extract.v'))
    rc, out = sh(['timeout', '600', 'coqc'] + coq_args() + ['Extract.v'], cwd=d)
    if rc != 0:
        raise RuntimeError('extraction failed:\n' + out[-3000:])
    shutil.copy(os.path.join(ROOT, 'ocaml/driver.ml'), os.path.join(d, 'driver.ml'))
    h = file_hash([os.path.join(d, 'model.ml'), os.path.join(d, 'driver.ml')])
    stamp = os.path.join(d, 'driver.stamp')
    if os.path.exists(os.path.join(d, 'driver')) and os.path.exists(stamp) and open(stamp).read() == h:
        return
    rc, out = sh(['ocamlfind', 'ocamlopt', '-O3', '-w', '-a', 'model.mli', 'model.ml', 'driver.ml', '-o', 'driver'], cwd=d, timeout=900)
    if rc != 0:
        raise RuntimeError('ocaml build failed:\n' + out[-3000:])
    open(stamp, 'w').write(h)

def build_harness(race=False):
    """Compile the harness INTO /repo's module with -overlay (nothing is written to /repo)."""
    rep = {}
    for p in glob.glob(os.path.join(ROOT, 'go/harness/*.go')):
        rep[os.path.join(REPO, 'internal/verifharness', os.path.basename(p))] = p
    for p in glob.glob(os.path.join(ROOT, 'go/export/*.go')):
        rep[os.path.join(REPO, 'zz_verif_' + os.path.basename(p))] = p
    for p in glob.glob(os.path.join(ROOT, 'go/dbexport/*.go')):
        rep[os.path.join(REPO, 'internal/diskbuffer', 'zz_verif_' + os.path.basename(p))] = p
    ov = os.path.join(BUILD, 'overlay.json')
    json.dump({'Replace': rep}, open(ov, 'w'), indent=1)
    exe = os.path.join(BUILD, 'harness')
    rc, out = sh(['go', 'build', '-tags', 'verif', '-overlay', ov, '-o', exe, './internal/verifharness'],
                 cwd=REPO, env=GOENV, timeout=900)
    if rc != 0:
        raise RuntimeError('harness build failed (does /repo still compile?):\n' + out[-4000:])
    if race:
        rc, out = sh(['go', 'build', '-race', '-tags', 'verif', '-overlay', ov, '-o', exe + '-race', './internal/verifharness'],
                     cwd=REPO, env=GOENV, timeout=1800)
        if rc != 0:
            raise RuntimeError('race-enabled harness build failed:\n' + out[-4000:])
    return exe

def prepare(need_harness=True, race=False):
    with Lock():
        t0 = time.time()
        build_gen()
        tr = run_translators()
        ok, out, failed = coq_make()
        extract_and_build_driver()
        if need_harness:
            build_harness(race)
        log('prepare: %.1fs, coq ok=%s failed=%s' % (time.time() - t0, ok, failed))
        return dict(coq_ok=ok, coq_failed=failed, translators=tr, coq_log=out)

# --------------------------------------------------------------------------
# proof obligations
# --------------------------------------------------------------------------
def check_obligations(prop):
    """Compile a small file that imports the property's theorem file(s) and prints
    the assumptions of each theorem.  Returns (list of (name, discharged, assumptions))."""
    d = os.path.join(BUILD, 'pa'); os.makedirs(d, exist_ok=True)
    res = []
    for mod, names in prop['theorems']:
        src = 'Require Import %s.\n' % mod
        for n in names:
            src += 'Goal True. idtac "BEGIN %s". Abort.\nPrint Assumptions %s.\n' % (n, n)
        f = os.path.join(d, 'PA_%s_%s.v' % (prop['id'], mod.replace('.', '_')))
        open(f, 'w').write(src)
        rc, out = sh(['timeout', '300', 'coqc'] + coq_args() + [f], cwd=d)
        chunks = out.split('BEGIN ')
        seen = {}
        for c in chunks[1:]:
            name, _, rest = c.partition('\n')
            seen[name.strip()] = rest.strip()
        for n in names:
            if rc == 0 and n in seen:
                res.append((n, True, ' '.join(seen[n].split())))
            else:
                res.append((n, False, 'NOT CHECKED: ' + ' '.join(out.split())[-400:]))
    return res

# --------------------------------------------------------------------------
# running cases
# --------------------------------------------------------------------------
class Oracle:
    """Answers the model's questions about trusted components: hashes and gzip through
    Python's own hashlib/zlib, text/URL/IP/time parsers through the Go oracle server
    (standard library calls only, no gowarc code)."""
    def __init__(self):
        self.p = None
    def go(self, q):
        if self.p is None:
            self.p = subprocess.Popen([os.path.join(BUILD, 'harness'), 'oracle'], stdin=subprocess.PIPE,
                                      stdout=subprocess.PIPE, text=True, bufsize=1)
        self.p.stdin.write(q + '\n'); self.p.stdin.flush()
        return self.p.stdout.readline().rstrip('\n')
    def answer(self, q):
        f = q.split()
        if f[0] == 'hash':
            alg = f[1]; data = bytes.fromhex(f[2][1:])
            return 'h' + hashlib.new(alg, data).hexdigest()
        return self.go(q)
    def close(self):
        if self.p:
            self.p.stdin.close(); self.p.wait(timeout=10)

def run_driver(cases_file, workdir):
    m = os.path.join(workdir, 'model.txt'); s = os.path.join(workdir, 'spec.txt')
    p = subprocess.Popen(['timeout', '3000', os.path.join(BUILD, 'ocaml/driver'), cases_file, m, s],
                         stdin=subprocess.PIPE, stdout=subprocess.PIPE, text=True, bufsize=1)
    orc = Oracle(); nq = 0
    try:
        while True:
            line = p.stdout.readline()
            if not line:
                break
            line = line.rstrip('\n')
            if line.startswith('? '):
                nq += 1
                p.stdin.write(orc.answer(line[2:]) + '\n'); p.stdin.flush()
            elif line == 'done':
                break
        p.wait(timeout=60)
    finally:
        orc.close()
    return [l.rstrip('\n') for l in open(m)], [l.rstrip('\n') for l in open(s)], nq

def run_driver_parallel(cases_file, workdir, parts=12):
    """The acceptance search is CPU bound and needs no shared state: shard the lines."""
    from concurrent.futures import ThreadPoolExecutor
    lines = [l for l in open(cases_file).read().split('\n') if l.strip()]
    if len(lines) < 2 * parts:
        return run_driver(cases_file, workdir)
    def one(k):
        d = os.path.join(workdir, 'shard%d' % k); os.makedirs(d, exist_ok=True)
        f = os.path.join(d, 'cases.txt')
        open(f, 'w').write('\n'.join(lines[k::parts]) + '\n')
        return run_driver(f, d)
    with ThreadPoolExecutor(max_workers=parts) as ex:
        res = list(ex.map(one, range(parts)))
    model = [None] * len(lines); spec = [None] * len(lines); nq = 0
    for k, (m, sp, q) in enumerate(res):
        idx = list(range(k, len(lines), parts))
        for j, i in enumerate(idx):
            model[i] = m[j] if j < len(m) else 'MISSING'
            spec[i] = sp[j] if j < len(sp) else '-'
        nq += q
    return model, spec, nq

def _limit_memory():
    import resource
    lim = 24 << 30
    try:
        resource.setrlimit(resource.RLIMIT_AS, (lim, lim))
    except Exception:
        pass

def run_harness_per_case(domain, cases_file, binary):
    """One fresh process per case (process-wide state such as caches must be cold every time)."""
    from concurrent.futures import ThreadPoolExecutor
    cases = [l for l in open(cases_file).read().split('\n') if l.strip()]
    def one(ic):
        i, c = ic
        part = '%s.%d' % (cases_file, i)
        open(part, 'w').write(c + '\n')
        rc, res = run_harness(domain, part, timeout=120, binary=binary)
        try:
            os.remove(part); os.remove(part + '.part')
        except OSError:
            pass
        return res[0] if res else ('MISSING', '-')
    with ThreadPoolExecutor(max_workers=8) as ex:
        return 0, list(ex.map(one, enumerate(cases)))

def run_harness(domain, cases_file, timeout=3000, binary='harness'):
    """Run the implementation on every case.  If the harness process dies (a fatal runtime error
    such as out-of-memory cannot be recovered inside Go), the case it died on is reported as a
    crash and the run continues with the remaining cases (at most three times)."""
    cases = [l for l in open(cases_file).read().split('\n') if l.strip()]
    res = []
    start = 0
    crashes = 0
    rc = 0
    while start < len(cases):
        part = cases_file + '.part'
        open(part, 'w').write('\n'.join(cases[start:]) + '\n')
        p = subprocess.run(['timeout', str(timeout), os.path.join(BUILD, binary), 'run', domain, part], env=dict(GOENV, GORACE='halt_on_error=1 exitcode=66'),
                           stdout=subprocess.PIPE, stderr=subprocess.PIPE, text=True, preexec_fn=_limit_memory)
        rc = p.returncode
        lines = p.stdout.split('\n')
        if lines and lines[-1] == '':
            lines.pop()
        # a line is complete only if it has the tab separated verdict
        good = [l for l in lines if '\t' in l]
        for l in good:
            obs, _, verdict = l.partition('\t')
            res.append((obs, verdict or '-'))
        start += len(good)
        if start >= len(cases):
            break
        # the process died while running cases[start]
        crashes += 1
        err_txt = p.stderr or ''
        why = err_txt.strip().split('\n')
        why = next((w for w in why if 'fatal error' in w or 'panic' in w or 'runtime:' in w), why[0] if why else 'no output')
        if 'DATA RACE' in err_txt:
            funcs = re.findall(r'^  ([A-Za-z0-9_./*()\[\]-]+)\(', err_txt, re.M)
            kind = 'data-race'
            res.append(('RACE', 'FAIL:%s:%s' % (kind, ' <- '.join(funcs[:6])[:400])))
        else:
            res.append(('CRASH', 'FAIL:crash:the process died running this case (%s)' % why[:200]))
        start += 1
        if crashes >= 3:
            res.extend([('SKIPPED', '-')] * (len(cases) - start))
            break
    return rc, res

def gen_cases(domain, seed, n, tier):
    rc, out = sh([os.path.join(BUILD, 'harness'), 'gen', domain, str(seed), str(n), tier], env=GOENV, timeout=3000)
    if rc != 0:
        raise RuntimeError('case generation failed: ' + out[-2000:])
    return [l for l in out.split('\n') if l.strip()]

def corpus_cases(pid):
    res = []
    for p in sorted(glob.glob(os.path.join(ROOT, 'corpus', pid, '*.case'))):
        for l in open(p):
            l = l.strip()
            if l and not l.startswith('#'):
                res.append(l)
    return res

# --------------------------------------------------------------------------
# verdict
# --------------------------------------------------------------------------
def load_known():
    p = os.path.join(ROOT, 'known_findings.json')
    if not os.path.exists(p):
        return []
    return json.load(open(p))['findings']

def evaluate(prop, cases, impl, model, spec):
    """Per case: (violation or None, mismatch or None); violation = (kind, detail)."""
    out = []
    for i, c in enumerate(cases):
        iobs, verdict = impl[i] if i < len(impl) else ('MISSING', '-')
        mobs = model[i] if i < len(model) else 'MISSING'
        sobs = spec[i] if i < len(spec) else '-'
        viol = None; mism = None
        if iobs == 'SKIPPED':
            out.append((None, None)); continue
        if verdict.startswith('FAIL'):
            parts = verdict.split(':', 2)
            viol = (parts[1] if len(parts) > 1 else 'fail', parts[2] if len(parts) > 2 else '')
        elif sobs != '-':
            proj = prop['spec_project'](c, iobs) if 'spec_project' in prop else iobs
            if proj is not None and sobs != proj:
                kind = prop['classify'](c, iobs, mobs, sobs) if 'classify' in prop else 'spec-mismatch'
                viol = (kind, 'impl differs from the specification')
        if mobs != '-' and mobs != iobs:
            mism = 'impl differs from the model'
        out.append((viol, mism))
    return out

def main(argv):
    if not argv or argv[0] in ('-h', '--help'):
        print(__doc__); return 2
    if argv[0] == '--setup':
        info = prepare()
        if not info['coq_ok']:
            print(info['coq_log'][-3000:])
            return 1
        bad = hygiene()
        if bad:
            print('hygiene:', bad); return 1
        return 0
    import props
    pid = argv[0]
    tier = os.environ.get('VERIF_TIER', 'quick')
    replay = None
    i = 1
    while i < len(argv):
        if argv[i] == '--tier': tier = argv[i + 1]; i += 2
        elif argv[i] == '--replay': replay = argv[i + 1]; i += 2
        else: i += 1
    if pid not in props.PROPS:
        print('unknown property', pid); return 2
    prop = props.PROPS[pid]
    seed = int(os.environ.get('VERIF_SEED', '1'))
    return run_check(prop, tier, seed, replay)

def run_check(prop, tier, seed, replay):
    pid = prop['id']
    t0 = time.time()
    try:
        info = prepare(race=bool(prop.get('race_domains')))
    except RuntimeError as e:
        # the machinery no longer builds against /repo (the tree does not compile, or an internal
        # interface the white-box harness uses has changed): the property is no longer shown to hold
        os.makedirs(os.path.join(ROOT, 'replays'), exist_ok=True)
        rp = os.path.join(ROOT, 'replays', '%s-%d-unchecked.json' % (pid, seed))
        json.dump(dict(property=pid, kind='unchecked-obligation', seed=seed,
                       correspondence='the harness / model could not be built against /repo', error=str(e)[-3000:]), open(rp, 'w'), indent=1)
        print('VIOLATION property=%s replay=%s no-failing-input-found' % (pid, rp))
        log(str(e)[-1500:])
        return 1
    work = os.path.join(BUILD, 'work', '%s-%d' % (pid, os.getpid()))
    shutil.rmtree(work, ignore_errors=True); os.makedirs(work)
    try:
        return _run_check(prop, tier, seed, replay, info, work, t0)
    finally:
        shutil.rmtree(work, ignore_errors=True)

def run_batch(prop, dom, cases, work, tag):
    cf = os.path.join(work, 'cases_%s_%s.txt' % (dom, tag))
    open(cf, 'w').write('\n'.join(cases) + '\n')
    binary = 'harness-race' if dom in prop.get('race_domains', ()) else 'harness'
    if dom in prop.get('per_case_domains', ()):
        rc, impl = run_harness_per_case(dom, cf, binary)
    else:
        rc, impl = run_harness(dom, cf, binary=binary)
    if prop.get('no_model', {}).get(dom):
        model = ['-'] * len(cases); spec = ['-'] * len(cases); nq = 0
    elif dom in prop.get('feed_impl', ()):
        # the model decides whether what the implementation did is one of its runs: the driver
        # gets the case together with the implementation's observation
        cf2 = cf + '.fed'
        open(cf2, 'w').write('\n'.join('%s || %s' % (c, (impl[i][0] if i < len(impl) else 'MISSING').replace(' ', '_'))
                                        for i, c in enumerate(cases)) + '\n')
        model, spec, nq = run_driver_parallel(cf2, work)
        unexplored = sum(1 for m in model if m == 'ACCEPT-UNEXPLORED')
        if unexplored:
            log('%s: %d of %d histories exceeded the state bound of the acceptance search' % (dom, unexplored, len(cases)))
        model = [(impl[i][0] if i < len(impl) else 'MISSING') if m.startswith('ACCEPT') else m for i, m in enumerate(model)]
    else:
        model, spec, nq = run_driver(cf, work)
    return impl, model, spec, nq

def _run_check(prop, tier, seed, replay, info, work, t0):
    pid = prop['id']
    known = [k for k in load_known() if k['property'] == pid]
    known_kinds = {k['kind']: k for k in known if k['status'] == 'known'}
    obligations = check_obligations(prop)
    undischarged = [o for o in obligations if not o[1]]
    bad = hygiene()
    tie_broken = bool(undischarged) or bool(bad)
    notes = []
    if bad:
        notes.append('hygiene: ' + '; '.join(bad[:5]))

    violations = []   # (case, kind, detail, impl, model, spec, domain)
    mismatches = []
    known_hits = {}
    evaluations = 0; distinct = set(); samples = []; nq_total = 0
    dist = {}

    def process(dom, cases, tag):
        nonlocal evaluations, nq_total
        if not cases:
            return
        impl, model, spec, nq = run_batch(prop, dom, cases, work, tag)
        nq_total += nq
        res = evaluate(prop, cases, impl, model, spec)
        for i, c in enumerate(cases):
            evaluations += 1
            iobs = impl[i][0] if i < len(impl) else 'MISSING'
            mobs = model[i] if i < len(model) else 'MISSING'
            sobs = spec[i] if i < len(spec) else '-'
            nt = prop.get('nontrivial', lambda c, o: True)
            if nt(c, iobs):
                distinct.add(hashlib.sha1((c.split(' ', 1)[0] + iobs).encode()).hexdigest())
            if 'stats' in prop:
                for k in prop['stats'](c, iobs):
                    dist[k] = dist.get(k, 0) + 1
            if len(samples) < 3 and len(c) < 600:
                samples.append({'case': c, 'impl': iobs[:300], 'model_agrees': mobs == iobs or mobs == '-'})
            viol, mism = res[i]
            if viol and '+' in viol[0]:
                # several sentences fail on this case: take the first kind this property is about
                ks = viol[0].split('+')
                mine = [k for k in ks if 'kinds' not in prop or k in prop['kinds']]
                # a kind listed as known finding must not hide another one of this property
                mine.sort(key=lambda k: k in known_kinds)
                viol = (mine[0] if mine else ks[0], viol[1])
            if viol and 'kinds' in prop and viol[0] not in prop['kinds'] and viol[0] != 'crash':
                viol = None      # a statement of another property evaluated by the same domain
            if viol:
                if viol[0] in known_kinds:
                    known_hits.setdefault(viol[0], (c, viol[1]))
                else:
                    violations.append((c, viol[0], viol[1], iobs, mobs, sobs, dom))
            if mism:
                mismatches.append((c, mism, iobs, mobs, sobs, dom))

    if replay:
        rp = json.load(open(replay))
        process(rp['domain'], [rp['case']], 'replay')
    else:
        n = prop['n'][tier]
        for dom in prop['domains']:
            cs = corpus_cases(pid) if dom == prop['domains'][0] else []
            cs = [c for c in cs if c.split(' ', 1)[0] == dom] if cs else []
            others = [c for c in corpus_cases(pid) if c.split(' ', 1)[0] == dom] if dom != prop['domains'][0] else []
            process(dom, cs + others, 'corpus')
            gen = gen_cases(dom, seed, n.get(dom, 0) if isinstance(n, dict) else n, tier)
            process(dom, gen, 'gen')
        if (tie_broken or mismatches) and not violations:
            # SEARCH: the tie between model and code no longer checks; look for a concrete failing input
            log('tie broken (undischarged=%d, mismatches=%d): searching for a failing input' % (len(undischarged), len(mismatches)))
            for k in range(1, 6):
                for dom in prop['domains']:
                    nn = (n.get(dom, 0) if isinstance(n, dict) else n)
                    process(dom, gen_cases(dom, seed * 1000 + k, min(max(nn, 300) * 2, 20000), 'thorough'), 'search%d' % k)
                if violations:
                    break

    # extra (non differential) sub-checks of the property
    extra = {}
    if 'extra' in prop and not replay:
        extra = prop['extra'](tier, seed, work)
        for v in extra.get('violations', []):
            if v.get('kind') in known_kinds:
                known_hits.setdefault(v['kind'], (v.get('case', ''), v.get('detail', '')))
            else:
                violations.append((v.get('case', ''), v.get('kind', 'extra'), v.get('detail', ''), '', '', '', v.get('domain', 'extra')))
        evaluations += extra.get('evaluations', 0)

    if os.environ.get('VERIF_DEBUG'):
        with open(os.path.join(BUILD, 'debug_%s.txt' % pid), 'w') as f:
            for v in violations:
                f.write('VIOL %s | %s\n  I %s\n  M %s\n  S %s %s\n' % (v[1], v[0], v[3], v[4], v[5], v[2]))
            for m in mismatches:
                f.write('MISM | %s\n  I %s\n  M %s\n  S %s\n' % (m[0], m[2], m[3], m[4]))
    rc = 0
    os.makedirs(os.path.join(ROOT, 'replays'), exist_ok=True)
    for kind, (c, detail) in sorted(known_hits.items()):
        print('KNOWN-FINDING: property=%s %s' % (pid, known_kinds[kind]['description']))
    if violations:
        c, kind, detail, iobs, mobs, sobs, dom = min(violations, key=lambda v: len(v[0]))
        rp = os.path.join(ROOT, 'replays', '%s-%d-%s.json' % (pid, seed, kind))
        json.dump(dict(property=pid, kind=kind, domain=dom, case=c, detail=detail, impl=iobs, model=mobs, spec=sobs,
                       seed=seed, n_violating_cases=len(violations),
                       replay_cmd='./check %s --replay %s' % (pid, rp)), open(rp, 'w'), indent=1)
        print('VIOLATION property=%s replay=%s' % (pid, rp))
        rc = 1
    elif tie_broken or mismatches:
        rp = os.path.join(ROOT, 'replays', '%s-%d-unchecked.json' % (pid, seed))
        d = dict(property=pid, kind='unchecked-obligation', seed=seed,
                 undischarged=[dict(theorem=o[0], error=o[2]) for o in undischarged],
                 hygiene=bad, coq_failed_files=info['coq_failed'])
        if mismatches:
            c, detail, iobs, mobs, sobs, dom = min(mismatches, key=lambda v: len(v[0]))
            d.update(correspondence='model %s and implementation disagree' % dom, domain=dom, case=c, impl=iobs, model=mobs, spec=sobs,
                     n_mismatching_cases=len(mismatches))
        json.dump(d, open(rp, 'w'), indent=1)
        print('VIOLATION property=%s replay=%s no-failing-input-found' % (pid, rp))
        rc = 1

    if not replay:
        write_evidence(prop, tier, seed, obligations, evaluations, len(distinct), samples, dist, nq_total,
                       len(violations), len(mismatches), sorted(known_hits), extra, time.time() - t0, notes)
    kinds = {}
    for v in violations:
        kinds[v[1]] = kinds.get(v[1], 0) + 1
    if kinds:
        log('violation kinds: %s' % kinds)
    log('%s %s: %d cases, %d distinct, %d violations, %d mismatches, %d known, obligations %d/%d, %.1fs' % (
        pid, tier, evaluations, len(distinct), len(violations), len(mismatches), len(known_hits),
        len(obligations) - len(undischarged), len(obligations), time.time() - t0))
    return rc

TRUSTED_BASE = [
    'Coq 8.16.1 kernel (coqc); vm_compute used in tie lemmas and finite-domain proofs; native_compute not used',
    'axioms: none (every property theorem prints "Closed under the global context")',
    'extraction: Require Extraction + ExtrOcamlBasic only (bool/option/unit/list/prod/sumbool mapped); N, Z, positive, nat stay extracted datatypes; OCaml 4.13.1; ocaml/driver.ml',
    'translators go/gen (go/parser, go/ast): field table and constants of headerfielddef.go',
    'correspondence harness go/harness (differential testing; bounds the tie of the hand-written model to the code)',
    'oracles (not verified): Go strings.ToLower/ToUpper on non-ASCII, mime.WordDecoder, whatwg-url, net.ParseIP, time.Parse, net/http, crypto hashes (answered by Python hashlib), klauspost gzip',
]

def write_evidence(prop, tier, seed, obligations, evaluations, distinct, samples, dist, nq, nviol, nmis, known_hits, extra, wall, notes):
    pid = prop['id']
    os.makedirs(os.path.join(ROOT, 'evidence'), exist_ok=True)
    cov = dict(
        obligations=len(obligations),
        discharged=sum(1 for o in obligations if o[1]),
        checker_cmd='coq_makefile -f _CoqProject -o Makefile && make -j16 (full .vo build) ; coqc Print Assumptions per theorem',
        trusted_base=TRUSTED_BASE + prop.get('trusted_extra', []),
        theorems=[dict(name=o[0], discharged=o[1], assumptions=o[2]) for o in obligations],
        evaluations=evaluations,
        distinct_nontrivial=distinct,
        rule=prop.get('rule', 'cases are generated by the seeded Go harness; a case counts as distinct when the pair (domain, implementation observation) was not seen before in this run'),
        samples=samples,
        input_distribution=dist,
        oracle_questions=nq,
        correspondence_mismatches=nmis,
        traces_validated_against_impl=evaluations - nmis,
        known_findings_hit=known_hits,
        exhaustive=False,
    )
    cov.update(extra.get('coverage', {}))
    ev = dict(property_id=pid, tier=tier, seed=seed, level='proof', coverage=cov,
              assumptions=prop.get('assumptions', []) + notes, wall_s=round(wall, 2), violations=nviol)
    json.dump(ev, open(os.path.join(ROOT, 'evidence', pid + '.json'), 'w'), indent=1)
